"""C20 -- cached and reloaded objects reflect their current logical state (DESIGN.md 3.4).

History exploration with a fresh-twin reference model.  A run is a finite history over the public
operation alphabet of one machine kind (orbit / centre manifold + libration point / map / manifold),
interleaved across objects that share services; every operation is also applied to a *fresh twin*
built at the model's logical state (the only way the unit tests validate the library: one call on a
brand-new object), and the long-lived object's answers and read-back state must agree with it.
Operation failures (invalid arguments, non-convergence) and save-I/O faults are operations too.
"""
from __future__ import annotations

import errno
import hashlib
import io
import json
import os
import tempfile

import numpy as np

from simkit.decisions import fhex
from simkit.run import RunCtx, Violation

PROPERTY = "C20"
LEVEL = "exploration"
DEFAULT_LEG = "history"

RULE = ("each run draws a machine kind and object set (1-2 orbits of halo/Lyapunov/vertical families sharing or not sharing a libration "
        "point, or 1-2 libration points (of one or two systems) with 1-2 centre manifolds and their maps, or an orbit with one or two of its "
        "manifolds, or an orbit with an invariant torus) and then a history "
        "of 1-14 public operations (mutators, observers, save/load, failing operations, save under an injected I/O fault), each drawn from "
        "a small fully-specified alphabet so that memo keys collide often; after every operation the long-lived object's return value and "
        "read-back logical state are compared with a fresh twin built at the model state on a never-mutated System. The quick tier also "
        "enumerates exhaustively all histories of length <= 2 over a reduced alphabet per machine plus length-3 core alphabets and a few explicit "
        "compute/mutate/re-read patterns (thorough tier: length <= 3). Operations include the correction / continuation option and configuration "
        "setters, generate, another orbit's file loaded in place, system.propagate (also against an independent scipy integration), point and "
        "system observers, conversions at neighbouring inputs. A run is non-trivial iff it contains a "
        "re-read after a mutation (or after a failed operation / reload); distinct = distinct (object set, operation sequence) digests.")
ASSUMPTIONS = [
    "a fresh twin shares one never-mutated System per mass ratio with other twins (a fresh System would recompile every integrator); the object under test never sees the twins' System",
    "twin results are memoised by the harness under a digest of the full logical state and operation (the library is a deterministic function of them)",
    "equality is rtol 1e-9 / atol 1e-12 (same process, same source: agreement is in fact bitwise); eigen-data are compared as sorted multisets",
    "stored results (orbit.trajectory, map sections, manifold results) must be unset or equal the fresh value of the last such call at the current state; the library is never required to keep a result",
    "after a reload every integration on the reloaded object recompiles (its unpickled System is new); the quick tier therefore allows at most one integrating operation after a reload",
    "a torn save (short write without error) followed by load is a non-gating probe: the property speaks of round trips",
]
COMPONENTS = {
    "real": ["types/services/*.py memo machinery (make_key/get_or_create/reset)", "system/orbits/*, system/libration/*, system/center.py, system/maps/center.py, system/manifold.py",
             "types/core.py __getstate__/__setstate__/_setup_services", "utils/io/*.py save/load", "correctors, integrators, normal-form pipeline behind the operations"],
    "stub": ["builtins.open as seen by hiten.utils.io.* during injected save faults (ENOSPC / EIO after k bytes, short write)"],
}
TIERS = {
    "quick": {"budget_s": 90.0, "max_runs": 200000, "chunk": 1, "run_timeout": 900.0, "min_budget": 120.0, "selfcheck_runs": 3, "enum_len": 2},
    "thorough": {"budget_s": 1500.0, "max_runs": 10_000_000, "chunk": 2, "run_timeout": 900.0, "min_budget": 300.0, "selfcheck_runs": 6, "enum_len": 3},
}

U: dict = {}          # the per-process universe
KNOWN: dict = {}
_TWIN_MEMO: dict = {}
_TMPDIR = None


def warmup(tier: str) -> None:
    global _TMPDIR
    if U:
        return
    import warnings
    warnings.filterwarnings("ignore")
    import numba
    numba.set_num_threads(1)
    from hiten import System
    from simkit.driver import load_known
    KNOWN.update(load_known(PROPERTY))
    U["sys_twin"] = {"em": System.from_bodies("earth", "moon"), "se": System.from_bodies("sun", "earth")}
    # The systems under test are built from the bare mass ratios: their bodies carry the same generic names, so any
    # cache that identifies a system by names/labels instead of by identity or mu collides here, while the twins'
    # systems (named bodies) cannot.
    U["sys_real"] = {k: System.from_mu(float(v.mu)) for k, v in U["sys_twin"].items()}
    _TMPDIR = tempfile.mkdtemp(prefix="verif_c20_")
    import atexit
    import shutil
    _owner = os.getpid()
    atexit.register(lambda: shutil.rmtree(_TMPDIR, ignore_errors=True) if os.getpid() == _owner else None)   # scratch files of save/load operations
    from checks import c20_orbit, c20_cm, c20_manifold, c20_torus
    c20_orbit.warmup(U, tier)
    c20_cm.warmup(U, tier)
    c20_manifold.warmup(U, tier)
    c20_torus.warmup(U, tier)


def tmp_path(name: str) -> str:
    d = os.path.join(_TMPDIR, str(os.getpid()))
    os.makedirs(d, exist_ok=True)
    return os.path.join(d, name)


# --------------------------------------------------------------------------- helpers shared by the machines
def eq(a, b, rtol=1e-9, atol=1e-12) -> bool:
    if a is None or b is None:
        return a is None and b is None
    if isinstance(a, (bool, np.bool_)) or isinstance(b, (bool, np.bool_)):
        return bool(a) == bool(b)
    if isinstance(a, str) or isinstance(b, str):
        return a == b
    if isinstance(a, dict) and isinstance(b, dict):
        return a.keys() == b.keys() and all(eq(a[k], b[k], rtol, atol) for k in a)
    if isinstance(a, (tuple, list)) and isinstance(b, (tuple, list)) and any(isinstance(x, (tuple, list, dict, str, np.ndarray)) or x is None for x in list(a) + list(b)):
        return len(a) == len(b) and all(eq(x, y, rtol, atol) for x, y in zip(a, b))
    try:
        A, B = np.asarray(a, dtype=complex), np.asarray(b, dtype=complex)
    except Exception:
        return a == b
    if A.shape != B.shape:
        return False
    return bool(np.allclose(A, B, rtol=rtol, atol=atol, equal_nan=True))


def brief(v, n: int = 6):
    if isinstance(v, np.ndarray):
        flat = v.ravel()
        return f"array{v.shape}{[complex(x) if np.iscomplexobj(v) else float(x) for x in flat[:n]]}"
    if isinstance(v, (tuple, list)) and len(v) > n:
        return f"{type(v).__name__}[{len(v)}]{list(v[:n])}"
    return repr(v)[:300]


def digest(obj) -> str:
    def norm(o):
        if isinstance(o, np.ndarray):
            return ["nd", o.shape, hashlib.sha256(np.ascontiguousarray(o).tobytes()).hexdigest()[:16]]
        if isinstance(o, float):
            return float(o).hex()
        if isinstance(o, dict):
            return {str(k): norm(v) for k, v in sorted(o.items(), key=lambda kv: str(kv[0]))}
        if isinstance(o, (list, tuple)):
            return [norm(x) for x in o]
        if isinstance(o, (np.floating,)):
            return float(o).hex()
        if isinstance(o, (np.integer,)):
            return int(o)
        return o if isinstance(o, (int, str, bool, type(None))) else repr(o)
    return hashlib.sha256(json.dumps(norm(obj), sort_keys=True, default=repr).encode()).hexdigest()[:20]


def twin_memo(key, fn):
    k = digest(key)
    if k not in _TWIN_MEMO:
        if len(_TWIN_MEMO) > 4000:
            _TWIN_MEMO.clear()
        _TWIN_MEMO[k] = fn()
    return _TWIN_MEMO[k]


class Outcome:
    """Result of applying one operation to an object: value or exception class."""

    def __init__(self, value=None, exc: BaseException | None = None):
        self.value = value
        self.exc = exc

    @property
    def failed(self):
        return self.exc is not None

    def kind(self):
        return "raised:" + type(self.exc).__name__ if self.exc is not None else "ok"


def attempt(fn) -> Outcome:
    try:
        return Outcome(value=fn())
    except Violation:
        raise
    except Exception as e:  # the library's own failures are outcomes of the operation
        return Outcome(exc=e)


def known_active(fid: str) -> bool:
    return fid in KNOWN


# --------------------------------------------------------------------------- injected save faults
class FaultyFile(io.RawIOBase):
    def __init__(self, real, limit: int, kind: str):
        self.real, self.limit, self.kind, self.n = real, limit, kind, 0

    def writable(self):
        return True

    def write(self, b):
        b = bytes(b)
        room = self.limit - self.n
        if len(b) > room:
            if room > 0:
                self.real.write(b[:room])
                self.n += room
            if self.kind == "short":
                return len(b)  # pretends success: a torn file
            raise OSError(errno.ENOSPC if self.kind == "enospc" else errno.EIO, "injected: " + self.kind)
        self.real.write(b)
        self.n += len(b)
        return len(b)

    def close(self):
        try:
            self.real.close()
        finally:
            super().close()

    def __enter__(self):
        return self

    def __exit__(self, *a):
        self.close()
        return False


def faulty_open(limit: int, kind: str):
    import builtins

    def _open(path, mode="r", *a, **k):
        f = builtins.open(path, mode, *a, **k)
        if "w" in mode and "b" in mode:
            return FaultyFile(f, limit, kind)
        return f
    return _open


# --------------------------------------------------------------------------- dispatch
def execute(ctx: RunCtx) -> None:
    from checks import c20_orbit, c20_cm, c20_manifold, c20_torus
    kind = ctx.ds.pick(["orbit", "cm", "manifold", "torus"], "machine", (0.47, 0.33, 0.1, 0.1))
    if kind == "orbit":
        c20_orbit.run_history(ctx, U)
    elif kind == "cm":
        c20_cm.run_history(ctx, U)
    elif kind == "manifold":
        c20_manifold.run_history(ctx, U)
    else:
        c20_torus.run_history(ctx, U)


LEGS = {"history": execute}


def known_replay_values(entry):
    """Choice sequence of a known finding, rebuilt from its operation list so that alphabet changes cannot silently detach it."""
    ops = entry.get("replay_ops")
    if not ops:
        return entry.get("replay_values")
    from checks import c20_orbit, c20_cm
    vals = list(entry["replay_values"])
    ops = [tuple(o) for o in ops]
    if vals[0] == 0:
        return vals[:4] + [c20_orbit.ALPHABET.index(o) + 1 for o in ops] + [0]
    if vals[0] == 1:
        return vals[:7] + [c20_cm.ALPHABET.index(o) + 1 for o in ops] + [0]
    return vals


def pre_phases(report, cfg, procs):
    """Bounded-exhaustive sweep: every history of length <= enum_len over each machine's reduced alphabet."""
    from simkit.driver import run_jobs
    import checks.c20 as me
    from checks import c20_orbit, c20_cm, c20_manifold, c20_torus
    jobs = []
    tag = 0
    for mod in (c20_orbit, c20_cm, c20_manifold, c20_torus):
        for vals in mod.enumeration(cfg["enum_len"]):
            jobs.append(("values", tag, "history", vals))
            tag += 1
    run_jobs(me, report, iter(jobs), procs=procs, budget_s=3600.0, chunk=6, run_timeout=cfg["run_timeout"],
             min_budget=cfg["min_budget"], phase="enumeration")
    ph = report.phase_stats.get("enumeration", {})
    report.extra["enumeration"] = {"histories": len(jobs), "max_length": cfg["enum_len"], "complete": bool(ph.get("exhausted_job_list"))}
