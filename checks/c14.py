"""C14 -- centre-manifold Poincare maps under any parallelism (DESIGN.md 3.3)."""
from __future__ import annotations

import hashlib
import os
import threading

import numpy as np

from models import cmref
from simkit.decisions import fhex
from simkit.run import RunCtx, Violation

PROPERTY = "C14"
LEVEL = "exploration"
DEFAULT_LEG = "pool"

RULE = ("each run draws a centre manifold (system, point, degree), an energy, a section coordinate, a seeding strategy, an integrator "
        "family/order, dt, iteration count, seed count, max_steps (sometimes too small for some seeds to return) and a worker count "
        "(1..40, more workers than seeds included); the REAL engine/backend/interface code then computes the map twice: once "
        "unmodified with one worker (reference) and once with engine.ThreadPoolExecutor/as_completed replaced by the simulated pool "
        "(baton-passing real threads; pre-emption at every source line of engine._worker and around every backend.run; seeded pick of "
        "the next worker and run length, seeded delivery order of finished futures) and, in about half of the runs, with the "
        "compiled prange kernel _poincare_map replaced by its own Python source under the prange simulator. Oracles: O1 section "
        "coordinate exactly 0; O2 energy level within the calibrated integration-accuracy bound; O3 sampled points are genuine first "
        "returns in the documented direction of their recorded predecessor under an independent scipy DOP853 flow of the decoded "
        "Hamiltonian; O4 the multiset of (state,time) rows is bit-identical to the 1-worker result and equals the union of what the "
        "backend produced; O5 no deadlock; O6 2-d points are the labelled-plane projection of the states. Separate fault "
        "configuration: a backend call raises -> compute must raise or return exactly the reference. A run is non-trivial iff >= 2 "
        "simulated workers were active and >= 1 context switch happened, or a fault fired; distinct = distinct (configuration, "
        "pick sequence, delivery order) digests. O7: from a worker's second backend call on, every seed is one of the points its previous call returned (within the O3 accuracy bound). Map histories before the judged computation: another section, another degree of the manifold, another energy on the same manifold, the same section with other options, A-B-A with an identical request, a configuration assignment.")
ASSUMPTIONS = [
    "one backend.run call is atomic in the simulation; other workers run arbitrary amounts of Python before and after it (sound while kernel inputs are not shared writable memory between workers: checked per run)",
    "numba compiles _poincare_map faithfully; prange semantics as documented; sequential consistency at array-cell granularity",
    "O2/O3 bounds are golden bounds calibrated on the unchanged tree per integrator family with x10 headroom (calibration in checks/c14_calibration.json); they catch a point moved by more than ten times the natural error, not a subtler loss of accuracy",
    "O3 don't-care bands: crossings whose direction quantity is within a margin of zero, and returns within 2*dt of the max_steps horizon, are accepted either way",
    "the seed count is forced through a subclass of the strategy object because options.seeding.n_seeds never reaches the strategy in this tree (see DESIGN.md section 7)",
]
COMPONENTS = {
    "real": ["centermanifold/engine.py solve/_worker", "centermanifold/backend.py (_CenterManifoldBackend.run, compiled _poincare_step, _detect_crossing, integrators)",
             "centermanifold/interfaces.py (lift_plane_point, solve_missing_coord, enforce_section_coordinate)", "seeding.py / strategies.py",
             "system/maps/center.py, types/services/maps.py", "the Python source of _poincare_map under the prange simulator (about half of the runs)"],
    "stub": ["concurrent.futures.ThreadPoolExecutor / as_completed (simulated pool)", "numba parallel runtime for _poincare_map (prange simulator)",
             "np.random.default_rng inside strategies.py (seeded)", "os.cpu_count inside interfaces.py (drawn)"],
}
TIERS = {
    "quick": {"budget_s": 90.0, "max_runs": 100000, "chunk": 1, "run_timeout": 600.0, "min_budget": 90.0, "selfcheck_runs": 3, "realbin_cfgs": 6},
    "thorough": {"budget_s": 1200.0, "max_runs": 10_000_000, "chunk": 2, "run_timeout": 3000.0, "min_budget": 240.0, "selfcheck_runs": 6, "realbin_cfgs": 60},
}

ENVS: list = []
ENG = CMB = STRAT = INTF = None
PSIM = None
_REAL = {}
_CAL = None


def _calibration():
    global _CAL
    if _CAL is None:
        import json
        from pathlib import Path
        _CAL = json.loads((Path(__file__).parent / "c14_calibration.json").read_text())
    return _CAL


class _NpProxy:
    """`np` as seen by strategies.py: identical except that default_rng() is seeded by the run."""

    def __init__(self, real_np):
        self._np = real_np
        self.seed = 0
        outer = self

        class _R:
            def __getattr__(self, n):
                return getattr(real_np.random, n)

            def default_rng(self, *a):
                return real_np.random.default_rng(outer.seed if not a else a[0])

        self.random = _R()

    def __getattr__(self, n):
        return getattr(self._np, n)


ENV_SPECS_QUICK = [("earth", "moon", 1, 4), ("earth", "moon", 1, 6), ("earth", "moon", 2, 5), ("sun", "earth", 1, 4)]
ENV_SPECS_THOROUGH = ENV_SPECS_QUICK + [("sun", "earth", 2, 6), ("earth", "moon", 2, 8)]
ENERGIES = {"earth-moon": [0.6, 0.2, 0.4, 0.9], "sun-earth": [0.6, 0.2, 0.4, 0.9]}


def warmup(tier: str) -> None:
    global ENG, CMB, STRAT, INTF, PSIM
    if ENVS:
        return
    import numba
    numba.set_num_threads(1)
    from hiten import System
    import hiten.algorithms.poincare.centermanifold.engine as eng
    import hiten.algorithms.poincare.centermanifold.backend as cmb
    import hiten.algorithms.poincare.centermanifold.strategies as strat
    import hiten.algorithms.poincare.centermanifold.interfaces as intf
    import hiten.algorithms.polynomial.base as pbase
    from sims.prange_sim import PrangeSim
    ENG, CMB, STRAT, INTF = eng, cmb, strat, intf
    _REAL.update(TPE=eng.ThreadPoolExecutor, AC=eng.as_completed, run=cmb._CenterManifoldBackend.run, pmap=cmb._poincare_map,
                 np=strat.np, cpu=intf.os.cpu_count)
    strat.np = _NpProxy(strat.np)
    PSIM = PrangeSim([cmb])
    specs = ENV_SPECS_THOROUGH if tier == "thorough" else ENV_SPECS_QUICK
    systems = {}
    for (a, b, pt, deg) in specs:
        key = f"{a}-{b}"
        if key not in systems:
            systems[key] = System.from_bodies(a, b)
        lp = systems[key].get_libration_point(pt)
        cm = lp.get_center_manifold(deg)
        cm.compute()
        hs = cm.dynamics.hamsys
        clmo = hs.clmo_table
        ham = cmref.CMHamiltonian([np.asarray(blk) for blk in hs.poly_H()],
                                  lambda i, d, clmo=clmo: tuple(int(v) for v in pbase._decode_multiindex(i, d, clmo)))
        ENVS.append({"name": f"{key}-L{pt}-deg{deg}", "cm": cm, "ham": ham, "energies": ENERGIES[key], "sys": key})
    # JIT warm-up: one tiny map per integrator family (children inherit the compiled code)
    for method, order in (("fixed", 4), ("symplectic", 4)):
        cfg = {"env": 0, "h0": 0.6, "section": "q3", "strategy": "axis_aligned", "cfg_section_consistent": True, "method": method,
               "order": order, "dt": 2e-2, "n_iter": 1, "n_seeds": 2, "max_steps": 400, "n_workers": 1, "rng_seed": 0}
        _compute(cfg, n_workers=1)


# --------------------------------------------------------------------------- running the real code
def _make_map(cfg, cm=None):
    from hiten.algorithms.poincare.centermanifold.config import CenterManifoldMapConfig
    from hiten.algorithms.types.configs import IntegrationConfig
    from hiten.system.maps.center import CenterManifoldMap
    env = ENVS[cfg["env"]]
    pm = CenterManifoldMap(cm if cm is not None else env["cm"], cfg["h0"])
    sec = cfg["section"]
    cfg_sec = sec if cfg["cfg_section_consistent"] else "q3"
    axis = None
    if cfg["strategy"] == "single":
        axis = "q2" if cfg_sec in ("q3", "p3") else "q3"
    pm.config = CenterManifoldMapConfig(seed_strategy=cfg["strategy"], seed_axis=axis, section_coord=cfg_sec,
                                        integration=IntegrationConfig(method=cfg["method"]))
    # workload control: force the seed count (the public option does not reach the strategy in this tree)
    strategy = pm.dynamics.generator._get_engine()._strategy
    n = int(cfg["n_seeds"])
    strategy.__class__ = type("_Forced" + type(strategy).__name__, (type(strategy),), {"n_seeds": property(lambda self: n)})
    return pm


def _options(cfg, n_workers):
    from hiten.algorithms.poincare.centermanifold.options import CenterManifoldMapOptions
    from hiten.algorithms.poincare.core.options import IterationOptions, SeedingOptions
    from hiten.algorithms.types.options import IntegrationOptions, WorkerOptions
    return CenterManifoldMapOptions(iteration=IterationOptions(n_iter=cfg["n_iter"]), seeding=SeedingOptions(n_seeds=cfg["n_seeds"]),
                                    workers=WorkerOptions(n_workers=n_workers),
                                    integration=IntegrationOptions(dt=cfg["dt"], order=cfg["order"], max_steps=cfg["max_steps"]))


def _compute(cfg, n_workers, pm=None):
    STRAT.np.seed = cfg["rng_seed"]
    pm = pm or _make_map(cfg)
    return pm.compute(section_coord=cfg["section"], options=_options(cfg, n_workers))


def _primed_map(cfg, prime):
    """A map object with a HISTORY: it has already computed another section, or its manifold had another degree.
    The map the property talks about must not depend on that history."""
    if prime == "none":
        return None
    env = ENVS[cfg["env"]]
    # never the run's own request (that would turn the judged computation into a memo hit: nothing would run under the simulated pool)
    small = dict(cfg, n_iter=1, n_seeds=min(cfg["n_seeds"], 3), max_steps=min(cfg["max_steps"], 600) - 1)
    if prime == "section":
        pm = _make_map(cfg)
        other = {"q3": "q2", "q2": "q3", "p3": "p2", "p2": "p3"}[cfg["section"]]
        STRAT.np.seed = cfg["rng_seed"]
        try:
            pm.compute(section_coord=other, options=_options(small, 1))
        except Exception:
            pass
        return pm
    if prime == "energy":
        # another map of the same manifold, at another energy, computed the run's section first; the run then uses its own fresh map object
        pm0 = _make_map(dict(cfg, h0=cfg["h0"] * 0.5))
        STRAT.np.seed = cfg["rng_seed"]
        try:
            pm0.compute(section_coord=cfg["section"], options=_options(small, 1))
        except Exception:
            pass
        return _make_map(cfg)
    if prime in ("aba", "config_between"):
        # the map object's own bookkeeping: section A, section B, section A again (an identical request), then the run's
        # computation of A with other options; or: the section, a fresh assignment of the same configuration, the section again
        pm = _make_map(cfg)
        other = {"q3": "q2", "q2": "q3", "p3": "p2", "p2": "p3"}[cfg["section"]]
        seq = [cfg["section"], other, cfg["section"]] if prime == "aba" else [cfg["section"]]
        for sec in seq:
            STRAT.np.seed = cfg["rng_seed"]
            try:
                pm.compute(section_coord=sec, options=_options(small, 1))
            except Exception:
                pass
        if prime == "config_between":
            import dataclasses
            pm.config = dataclasses.replace(pm.config)
            n = int(cfg["n_seeds"])
            strategy = pm.dynamics.generator._get_engine()._strategy
            strategy.__class__ = type("_Forced" + type(strategy).__name__, (type(strategy),), {"n_seeds": property(lambda self: n)})
        return pm
    if prime == "recompute":
        # the same map object already computed the run's section with fewer iterations and seeds' worth of rows
        pm = _make_map(cfg)
        STRAT.np.seed = cfg["rng_seed"]
        try:
            pm.compute(section_coord=cfg["section"], options=_options(small, 1))
        except Exception:
            pass
        return pm
    # degree: a private manifold that starts at another degree, computes a map, then switches to the run's degree
    from hiten.system.center import CenterManifold
    deg = int(env["cm"].degree)
    cm = CenterManifold(env["cm"].point, deg - 1 if deg > 3 else deg + 1)
    cfg2 = dict(cfg)
    pm = _make_map(cfg2, cm=cm)
    STRAT.np.seed = cfg["rng_seed"]
    try:
        pm.compute(section_coord=cfg["section"], options=_options(small, 1))
    except Exception:
        pass
    cm.degree = deg
    return pm


def _rows(res):
    st = np.asarray(res.states, float).reshape(-1, 4)
    tm = np.asarray(res.times if res.times is not None else np.empty(0), float).reshape(-1)
    return st, tm


def _multiset(st, tm):
    return sorted(tuple(float(x).hex() for x in row) + (float(t).hex(),) for row, t in zip(st, tm))


# --------------------------------------------------------------------------- configuration
SECTIONS = ["q3", "q2", "p3", "p2"]
STRATS = ["axis_aligned", "single", "level_sets", "radial", "random"]
METHODS = [("fixed", 4), ("fixed", 8), ("symplectic", 4), ("fixed", 6), ("symplectic", 2), ("symplectic", 6), ("symplectic", 8)]
DTS = [2e-2, 1e-2, 5e-3]
WORKERS = [2, 3, 1, 5, 8, 16, 40]
NSEEDS = [4, 1, 2, 3, 6, 9, 12]


def draw_config(ds, n_envs, quick: bool = False):
    c = {}
    c["env"] = ds.choose(n_envs, "cfg.env")
    c["h0"] = ds.pick(ENVS[c["env"]]["energies"], "cfg.energy")
    c["section"] = ds.pick(SECTIONS, "cfg.section")
    c["strategy"] = ds.pick(STRATS, "cfg.strategy")
    c["cfg_section_consistent"] = not ds.flag("cfg.section_only_at_compute", 0.25)
    c["method"], c["order"] = ds.pick(METHODS, "cfg.integrator", (0.3, 0.15, 0.2, 0.1, 0.08, 0.09, 0.08))
    c["dt"] = ds.pick(DTS, "cfg.dt", (0.5, 0.35, 0.15))
    c["n_iter"] = 1 + ds.choose(4, "cfg.n_iter")
    c["n_seeds"] = ds.pick(NSEEDS, "cfg.n_seeds")
    c["max_steps"] = ds.pick([2000, 150, 60, 600], "cfg.max_steps", (0.6, 0.15, 0.1, 0.15))
    c["n_workers"] = ds.pick(WORKERS, "cfg.n_workers")
    c["rng_seed"] = ds.choose(4, "cfg.rng_seed")
    if quick and c["method"] == "symplectic" and c["order"] >= 6:
        # cost guard of the quick tier: high-order symplectic steps are 10-40x dearer per step
        c["n_iter"], c["n_seeds"], c["max_steps"] = min(c["n_iter"], 2), min(c["n_seeds"], 4), min(c["max_steps"], 600)
    elif c["method"] == "symplectic" and c["order"] >= 6:
        # milder guard of the thorough tier (a run computes the map two or three times)
        c["n_iter"], c["n_seeds"] = min(c["n_iter"], 3), min(c["n_seeds"], 6)
    return c


# --------------------------------------------------------------------------- oracles on a result
def _sec_col(sec):
    return cmref.ORDER4.index(sec)


def check_static(cfg, res, what):
    st, tm = _rows(res)
    sec = cfg["section"]
    if len(st) != len(tm):
        raise Violation("C14/O4-alignment", f"{what}: {len(st)} states but {len(tm)} times")
    if len(st) and not np.all(st[:, _sec_col(sec)] == 0.0):
        i = int(np.flatnonzero(st[:, _sec_col(sec)] != 0.0)[0])
        raise Violation("C14/O1-on-section", f"{what}: row {i} has {sec} = {st[i, _sec_col(sec)]!r}, not exactly 0.0")
    if not np.all(np.isfinite(st)) or not np.all(np.isfinite(tm)):
        raise Violation("C14/O2-finite", f"{what}: non-finite state or time in the map")
    # O6: 2-d points are the projection of the states onto the labelled plane
    pts = np.asarray(res.points, float).reshape(-1, 2)
    labels = tuple(res.labels)
    want_labels = ("q2", "p2") if sec in ("q3", "p3") else ("q3", "p3")
    if labels != want_labels:
        raise Violation("C14/O6-labels", f"{what}: labels {labels} for section {sec}, expected {want_labels}")
    proj = st[:, [cmref.ORDER4.index(labels[0]), cmref.ORDER4.index(labels[1])]] if len(st) else np.empty((0, 2))
    if pts.shape != proj.shape or not np.array_equal(pts, proj):
        raise Violation("C14/O6-points-projection", f"{what}: points are not the ({labels[0]},{labels[1]}) projection of the states "
                                                    f"(section {sec}); first point {pts[0].tolist() if len(pts) else None} vs state {st[0].tolist() if len(st) else None}")
    return st, tm


def energy_bound(cfg) -> float:
    cal = _calibration()["O2"]["symplectic" if cfg["method"] == "symplectic" else "fixed"]
    return cal["floor"] + cal["K"] * cfg["dt"] ** cal["r"] * cfg["n_iter"]


def check_energy(cfg, st, what):
    ham = ENVS[cfg["env"]]["ham"]
    bound = energy_bound(cfg)
    worst, wi = 0.0, -1
    for i, row in enumerate(st):
        e = abs(ham.H(cmref.z_of(row)) - cfg["h0"])
        if e > worst:
            worst, wi = e, i
    if worst > bound:
        raise Violation("C14/O2-energy-level", f"{what}: row {wi} has |H_cm - h0| = {worst:.3e} > bound {bound:.3e} "
                                               f"({cfg['method']} order {cfg['order']}, dt={cfg['dt']}, {cfg['n_iter']} iterations)")
    return worst


def return_bound(cfg, amp: float) -> float:
    cal = _calibration()["O3"]["symplectic" if cfg["method"] == "symplectic" else "fixed"]
    return cal["floor"] + cal["K"] * cfg["dt"] ** cal["r"] * max(amp, 1e-3)


def check_return(ctx, cfg, seed_row, point_row, t_ret, what):
    """O3 for one recorded (seed -> point | dropped) pair. point_row None means the seed was dropped."""
    ham = ENVS[cfg["env"]]["ham"]
    sec, dt = cfg["section"], cfg["dt"]
    horizon = cfg["max_steps"] * dt
    # a reported return only needs the reference flow up to just past its own return time
    t_end = horizon + 3 * dt if point_row is None else min(horizon + 3 * dt, float(t_ret) + 6 * dt)
    cands = cmref.reference_return(ham, seed_row, sec, t_end, dt)
    # two sign changes within two library steps cannot be resolved by a fixed-step sign test: don't care
    for a, b in zip(cands, cands[1:]):
        if b[0] - a[0] < 2.5 * dt:
            ctx.probe("o3_dont_care_graze")
            return
    # admissible reference answers: every crossing whose direction quantity is ambiguous (|D| <= margin), up to and
    # including the first crossing with D firmly positive
    admissible, firm = [], None
    for (t, s4, D, margin) in cands:
        if D > margin:
            admissible.append((t, s4))
            firm = (t, s4)
            break
        if abs(D) <= margin:
            admissible.append((t, s4))
            ctx.probe("o3_ambiguous_direction")
    amp = float(np.max(np.abs(seed_row)))
    tol = return_bound(cfg, amp)
    if point_row is None:
        # dropped: a violation iff a firmly admissible return exists clearly before the horizon
        if firm is not None and firm[0] < horizon - 2 * dt:
            raise Violation("C14/O3-missed-return", f"{what}: seed {seed_row.tolist()} was dropped although the reference flow returns to "
                                                    f"{sec}=0 in the documented direction at t={firm[0]:.6f} < max_steps*dt={horizon:.4f}")
        ctx.probe("o3_dropped_confirmed")
        return
    if not admissible:
        if float(t_ret) > horizon - 2 * dt:
            ctx.probe("o3_dont_care_horizon")
            return
        raise Violation("C14/O3-not-a-return", f"{what}: point {point_row.tolist()} (t={t_ret:.6f}) reported for seed {seed_row.tolist()} "
                                               f"but the reference flow has no crossing of {sec}=0 in the documented direction before t={horizon:.4f}")
    best = min(admissible, key=lambda a: float(np.max(np.abs(a[1] - point_row))))
    err = float(np.max(np.abs(best[1] - point_row)))
    terr = abs(best[0] - t_ret)
    calt = _calibration()["O3t"]["symplectic" if cfg["method"] == "symplectic" else "fixed"]
    ttol = calt["floor"] + calt["K"] * cfg["dt"] ** calt["r"]
    # geometry of the crossing: the library locates the crossing time by LINEAR interpolation of the section coordinate
    # inside the step, whose error is <= (|f''|/|f'|) dt^2 / 8 to leading order (f = section coordinate along the flow) and
    # is unbounded as the crossing becomes tangent; the state error follows as |velocity| times that time error
    zc = cmref.z_of(best[1])
    v = ham.rhs(0.0, zc)
    idx6 = cmref.IDX[sec]
    f1 = float(v[idx6])
    f2 = float((ham.rhs(0.0, zc + dt * v)[idx6] - f1) / dt)
    dt_lin = abs(f2) / max(abs(f1), 1e-12) * dt * dt / 8.0
    ttol += 4.0 * dt_lin
    tol += 4.0 * float(np.max(np.abs(v))) * dt_lin
    if dt_lin > 0.25 * dt:
        ctx.probe("o3_dont_care_tangent")
        return
    if err > tol or terr > ttol:
        raise Violation("C14/O3-not-the-return", f"{what}: seed {seed_row.tolist()} -> point {point_row.tolist()} at t={t_ret:.6f}; reference first "
                                                 f"return in the documented direction is {best[1].tolist()} at t={best[0]:.6f} "
                                                 f"(|dx|={err:.3e}, |dt|={terr:.3e}, bounds {tol:.3e} / {ttol:.3e})")
    ctx.probe("o3_pairs_checked")
    return err


# --------------------------------------------------------------------------- one simulated run
def execute(ctx: RunCtx) -> None:
    from sims.executor_sim import Baton, make_pool, HarnessHang
    ds, log = ctx.ds, ctx.log
    cfg = draw_config(ds, len(ENVS), quick=(ctx.tier == "quick"))
    fault_cfg = ds.flag("cfg.fault_configuration", 0.15)
    use_psim = ds.flag("cfg.prange_sim_kernel", 0.5)
    prime = ds.pick(["none", "section", "degree", "energy", "recompute", "aba", "config_between"], "cfg.map_history", (0.44, 0.12, 0.12, 0.08, 0.08, 0.1, 0.06))
    log.add("cfg", {k: (fhex(v) if isinstance(v, float) else v) for k, v in cfg.items()}, fault_cfg, use_psim, prime)
    ctx.sample = {"config": dict(cfg, env=ENVS[cfg["env"]]["name"]), "fault_configuration": fault_cfg, "prange_sim_kernel": use_psim, "map_history": prime}
    what = f"map {ENVS[cfg['env']]['name']} {cfg}"
    # ---- reference: unmodified code, one worker
    try:
        ref = _compute(cfg, n_workers=1)
    except Exception as e:
        ref = e
    if isinstance(ref, Exception):
        # e.g. no seed inside the Hill region for this energy/section: the simulated run must fail the same way
        ctx.probe("reference_raised_" + type(ref).__name__)
        ref_rows = None
    else:
        st_r, tm_r = check_static(cfg, ref, what + " [1 worker]")
        ref_rows = _multiset(st_r, tm_r)
        if len(st_r):
            check_energy(cfg, st_r, what + " [1 worker]")
    # ---- simulated pool
    policy = ds.pick(["runs", "round_robin", "serial", "reverse"], "sched.policy", (0.65, 0.15, 0.1, 0.1))
    baton = Baton(ds, log=None, trace_files=(ENG.__file__,), policy=policy)
    Pool, as_completed = make_pool(baton)
    records = []          # (worker, call#, seeds copy, flags, states)
    calls = {"n": 0}
    fault_at = (ds.choose(6, "fault.call_index") if fault_cfg else -1)
    fault_kind = ds.pick(["raise_runtime", "raise_backend_error"], "fault.kind") if fault_cfg else None
    seeds_live: dict = {}
    real_run = _REAL["run"]
    nT = ds.pick([2, 3, 4, 1, 8, 16], "psim.nT") if use_psim else 1
    ppart = ds.pick(["static", "arbitrary", "chunked"], "psim.partition") if use_psim else "static"
    ppol = ds.pick(["runs", "perm", "rmw", "round_robin", "reverse", "serial"], "psim.policy") if use_psim else "serial"

    def run_proxy(self, request):
        me = baton.current() or "main"
        baton.yield_point("backend.run:before")
        k = calls["n"]
        calls["n"] += 1
        seeds = np.asarray(request.seeds)
        for other, arr in seeds_live.items():
            if other != me and arr is not None and seeds.size and arr.size and np.shares_memory(arr, seeds):
                raise Violation("C14/kernel-input-shared", f"workers {other} and {me} pass overlapping seed memory to the compiled kernel")
        seeds_live[me] = seeds
        before = hashlib.sha256(np.ascontiguousarray(seeds).tobytes()).hexdigest()
        if k == fault_at:
            ctx.fault(fault_kind)
            if fault_kind == "raise_runtime":
                raise RuntimeError("injected: backend failure")
            from hiten.algorithms.types.exceptions import BackendError
            raise BackendError("injected: backend failure")
        if use_psim:
            PSIM.begin_run(ds, nT, ppart, ppol, 2)
        resp = real_run(self, request)
        if use_psim:
            ctx.steps += PSIM.steps
            ctx.probe("psim_regions", PSIM.regions)
            ctx.probe("psim_switches", PSIM.switches)
        if hashlib.sha256(np.ascontiguousarray(np.asarray(request.seeds)).tobytes()).hexdigest() != before:
            raise Violation("C14/kernel-input-mutated", f"request.seeds changed during backend.run (worker {me}, call {k})")
        records.append((me, k, np.array(seeds, float, copy=True).reshape(-1, 4), np.array(resp.flags), np.array(resp.states, float).reshape(-1, 4),
                        np.array(resp.times, float).reshape(-1)))
        baton.yield_point("backend.run:after")
        return resp

    primed = _primed_map(cfg, prime)   # built with the unmodified code, before the seams are rebound
    if prime != "none":
        ctx.probe("map_history_" + prime)
    ENG.ThreadPoolExecutor, ENG.as_completed = Pool, as_completed
    CMB._CenterManifoldBackend.run = run_proxy
    if use_psim:
        CMB._poincare_map = PSIM.fn(_REAL["pmap"])
    INTF.os.cpu_count = lambda: 1 + ds.choose(32, "os.cpu_count")
    sim = None
    try:
        sim = _compute(cfg, n_workers=cfg["n_workers"], pm=primed)
    except Violation:
        raise
    except HarnessHang:
        raise
    except Exception as e:
        sim = e
    finally:
        ENG.ThreadPoolExecutor, ENG.as_completed = _REAL["TPE"], _REAL["AC"]
        CMB._CenterManifoldBackend.run = _REAL["run"]
        CMB._poincare_map = _REAL["pmap"]
        INTF.os.cpu_count = _REAL["cpu"]
        baton.teardown()
    n_tasks = len(baton.names)
    ctx.steps += baton.yields
    picks = "".join(n[1:] + "." for n in baton.pick_trace)
    log.add("sched", policy, n_tasks, baton.yields, baton.picks, baton.switches, hashlib.sha256(picks.encode()).hexdigest()[:16])
    ctx.sig_parts = [cfg, fault_cfg, use_psim, prime, picks, baton.delivered, (nT, ppart, ppol)]
    ctx.nontrivial = (n_tasks >= 2 and baton.switches >= 1) or bool(ctx.faults)
    ctx.sample["schedule"] = {"policy": policy, "tasks": n_tasks, "yield_points": baton.yields, "picks": baton.picks, "switches": baton.switches,
                              "backend_calls": calls["n"]}
    ctx.probe("workers_spawned", n_tasks)
    if baton.delivered != sorted(baton.delivered):
        ctx.probe("completion_order_not_submission_order")
    if baton.delivered_while_running:
        ctx.probe("consumer_ran_between_completions", baton.delivered_while_running)
    if n_tasks < cfg["n_workers"]:
        ctx.probe("more_workers_than_seeds")
    # ---- outcome classification
    if isinstance(sim, Exception):
        log.add("sim-raised", type(sim).__name__)
        if ctx.faults:
            ctx.probe("fault_surfaced_as_exception")
            return  # relaxed oracle of the fault configuration: raising is fine
        if ref_rows is None and type(sim) is type(ref):
            return
        raise Violation("C14/O4-sim-raised", f"{what}: computing with {cfg['n_workers']} workers raised {type(sim).__name__}: {sim} "
                                             f"while the 1-worker computation " + ("raised " + type(ref).__name__ if ref_rows is None else "succeeded"))
    if ref_rows is None:
        raise Violation("C14/O4-ref-raised", f"{what}: the 1-worker computation raised {type(ref).__name__}: {ref} but {cfg['n_workers']} workers returned a map")
    st_s, tm_s = check_static(cfg, sim, what + f" [{cfg['n_workers']} workers, simulated schedule]")
    sim_rows = _multiset(st_s, tm_s)
    log.add("result", len(sim_rows), hashlib.sha256(repr(sim_rows).encode()).hexdigest()[:16])
    if ctx.faults:
        # the fault fired but compute returned: it must be exactly the reference set, never a silent strict subset
        if sim_rows != ref_rows:
            raise Violation("C14/fault-silent-loss", f"{what}: a backend call raised ({fault_kind}) and compute() returned {len(sim_rows)} points "
                                                      f"instead of raising or returning the {len(ref_rows)} reference points")
        return
    if sim_rows != ref_rows:
        a, b = set(sim_rows), set(ref_rows)
        raise Violation("C14/O4-partition-dependence", f"{what}: {cfg['n_workers']} workers under the simulated schedule returned {len(sim_rows)} rows, "
                                                       f"1 worker returned {len(ref_rows)}; {len(a - b)} rows only in the former, {len(b - a)} only in the latter"
                                                       + (f"; prange-simulated kernel nT={nT} {ppart}/{ppol}" if use_psim else ""))
    if calls["n"] == 0 and prime != "none" and len(sim_rows):
        # the judged request was answered from the map's memo (it equals an earlier request of the map's history): the result was
        # compared with the reference above; the record-based oracles have nothing to look at
        ctx.probe("served_from_memo")
        return
    # union of what the backend produced (after the engine's section enforcement) == output
    prod = []
    col = _sec_col(cfg["section"])
    for (_, _, seeds, flags, states, times) in records:
        s2 = states.copy()
        if len(s2):
            s2[:, col] = 0.0
        prod.extend(_multiset(s2, times))
    if sorted(prod) != sim_rows:
        raise Violation("C14/O4-gather", f"{what}: the returned rows are not the union of the rows the backend produced "
                                         f"({len(sim_rows)} returned, {len(prod)} produced)")
    if any(len(r[2]) != len(r[3]) or int(np.count_nonzero(r[3])) != len(r[4]) for r in records):
        raise Violation("C14/O4-flags", f"{what}: backend flags do not match the number of returned states")
    # O2a: the lifted seeds (first backend call of every worker) lie exactly on the section and on the energy level
    ham = ENVS[cfg["env"]]["ham"]
    seen_workers = set()
    for (w, _, seeds, _, _, _) in records:
        if w in seen_workers:
            continue
        seen_workers.add(w)
        for sd in seeds:
            if sd[col] != 0.0:
                raise Violation("C14/O1-seed-on-section", f"{what}: lifted seed {sd.tolist()} has {cfg['section']} = {sd[col]!r}")
            e = abs(ham.H(cmref.z_of(sd)) - cfg["h0"])
            if e > 1e-8 * max(1.0, abs(cfg["h0"])):
                raise Violation("C14/O2-seed-energy-level", f"{what}: lifted seed {sd.tolist()} has |H_cm - h0| = {e:.3e} (root solve tolerance is 1e-12)")
            ctx.probe("seeds_energy_checked")
    # O7 chain: from a worker's second backend call on, every seed is a point the same worker's previous call returned (the
    # predecessor of a map point is the previous map point, not something re-derived from it); the tolerance is the calibrated
    # integration-accuracy bound of O3, so a re-projection at that accuracy would pass; the other root of the energy equation is O(0.1) away
    last_out: dict = {}
    for (w, _, seeds, flags, states, times) in records:
        prev = last_out.get(w)
        if prev is not None:
            keep = [c for c in range(4) if c != col]
            for sd in seeds:
                d = float(np.min(np.max(np.abs(prev[:, keep] - sd[keep]), axis=1))) if len(prev) else float("inf")
                if not d <= return_bound(cfg, float(np.max(np.abs(sd)))):
                    raise Violation("C14/O7-feedback-chain", f"{what}: worker {w} iterates from {sd.tolist()}, which is none of the points its previous "
                                                             f"iteration returned (nearest differs by {d:.3e}): the next point is not a return of its predecessor")
                ctx.probe("feedback_chain_checked")
        last_out[w] = states
    n_dropped = sum(int(len(r[3]) - np.count_nonzero(r[3])) for r in records)
    if n_dropped:
        ctx.probe("seed_dropped", n_dropped)
    # ---- O3 on sampled (seed -> point | dropped) pairs, taken from the backend records
    pairs = []
    for (_, _, seeds, flags, states, times) in records:
        j = 0
        for i in range(len(seeds)):
            if flags[i]:
                pairs.append((seeds[i], states[j], times[j]))
                j += 1
            else:
                pairs.append((seeds[i], None, None))
    n_check = min(len(pairs), 2 if ctx.tier == "quick" else 4)
    for _ in range(n_check):
        sd, pt, tr = pairs[ds.choose(len(pairs), "o3.sample")]
        check_return(ctx, cfg, sd, pt, tr, what)


LEGS = {"pool": execute}

_REALBIN: list = []


def pre_phases(report, cfg, procs):
    """Start the real-binary leg in a fresh interpreter (omp layer); it runs while the simulation runs."""
    import subprocess
    import sys
    from pathlib import Path
    here = Path(__file__).resolve().parent.parent
    env = dict(os.environ, NUMBA_THREADING_LAYER="omp", PYTHONHASHSEED="0", OMP_WAIT_POLICY="PASSIVE", GOMP_SPINCOUNT="0")
    env.pop("NUMBA_NUM_THREADS", None)
    p = subprocess.Popen([sys.executable, "-m", "sims.realbin_c14", str(report.seed), str(cfg["realbin_cfgs"])], cwd=str(here), env=env,
                         stdout=subprocess.PIPE, stderr=subprocess.PIPE, text=True)
    _REALBIN.append(p)


def post_phases(report, cfg, procs):
    import json
    import subprocess
    from simkit.run import RunResult
    for p in _REALBIN:
        try:
            so, se = p.communicate(timeout=3000)
        except subprocess.TimeoutExpired:
            p.kill()
            report.harness_errors.append(("realbin-timeout", "C14 real-binary leg"))
            continue
        line = [l for l in so.splitlines() if l.startswith("REALBIN ")]
        if p.returncode not in (0, 1) or not line:
            report.harness_errors.append(("realbin-crashed", f"rc={p.returncode} {se[-1500:]}"))
            continue
        doc = json.loads(line[-1][len("REALBIN "):])
        report.extra["real_binary_leg"] = {k: v for k, v in doc.items() if k != "mismatches"}
        report.evaluations += doc["executions"]
        for m in doc["mismatches"][:1]:
            msg = f"real binary (OS-scheduled; may need repetitions to show again): {m['what']} for {m['config']}"
            r = RunResult(verdict="violation", vclass="C14/realbin-partition-dependence", message=msg)
            payload = {"values": m["values"], "decisions": [], "events": [], "vclass": r.vclass, "message": msg, "digest": None,
                       "minimise": {"tests": 0}, "original_len": len(m["values"]), "no_verify": True,
                       "sample": {"phase": "realbin", "workers": m["workers"], "threads": m["threads"], "config": m["config"]}}
            report.violations.append((("values", "realbin", "realbin"), r, payload))
    _REALBIN.clear()


def _execute_realbin(ctx: RunCtx) -> None:
    """Replay of a real-binary mismatch: same configuration, all worker/thread counts, 5 repetitions, in this process."""
    import numba
    from sims import realbin_c14
    cfg = draw_config(ctx.ds, len(ENVS), quick=True)
    numba.set_num_threads(1)
    ref_rows = _multiset(*_rows(_compute(cfg, n_workers=1)))
    for _ in range(5):
        for nt in realbin_c14.THREADS:
            numba.set_num_threads(min(nt, numba.config.NUMBA_NUM_THREADS))
            for nw in realbin_c14.WORKERS:
                rows = _multiset(*_rows(_compute(cfg, n_workers=nw)))
                if rows != ref_rows:
                    numba.set_num_threads(1)
                    raise Violation("C14/realbin-partition-dependence", f"{nw} workers / {nt} threads returned {len(rows)} rows, 1 worker returned {len(ref_rows)} for {cfg}")
    numba.set_num_threads(1)


LEGS["realbin"] = _execute_realbin
