"""C13 -- continuation: valid members, bounds, honest counters (DESIGN.md 3.2).

Leg "protocol": the real predictor-corrector backend, real steppers and real
secant support run against a *scripted corrector* whose outcome at every call
is a simulator decision (accept / reject / raise / displaced / ...), in lock
step with the reference model of models/contmodel.py.
Leg "e2e" (checks/c13_e2e.py): real orbit families with faults injected into
the real corrector.
"""
from __future__ import annotations

import itertools

import numpy as np

from models.contmodel import ContinuationModel, ModelMismatch
from simkit.decisions import fhex
from simkit.run import RunCtx, Violation

PROPERTY = "C13"
LEVEL = "fault_enumeration"
DEFAULT_LEG = "protocol"

RULE = ("protocol leg: each run draws a continuation configuration (stepper natural/secant, 1-3 parameters, step signs and "
        "magnitudes inside [step_min,step_max], binding/non-binding clamps, target boxes hit early/late/never, max_members 1..12, "
        "max_retries 0..6, shrink policy none/legal/raising/growing/identity/tiny) and then, at every corrector call of the REAL "
        "backend loop, a fault decision (pass, reject, raise ConvergenceError, raise bare Exception, displaced pass, far pass that "
        "leaves the target, NaN-residual pass, 3-tuple pass, pass that lands on the last member again); the backend instance may already "
        "have produced another family; thorough tier additionally enumerates exhaustively all accept/reject "
        "sequences up to length 10 and all accept/reject/raise sequences up to length 7 over a grid of 24 configurations. "
        "e2e leg: real halo/Lyapunov/vertical families with forced failures of the real orbit corrector, members closed with an "
        "independent scipy DOP853 propagation; continuation states of one or two components in either listed order, corrections that raise, "
        "are starved of iterations or come back flagged unconverged, a prior generate() on the same seed (other options, loose corrector, "
        "same options under the other stepper, other state components), OrbitFamily.from_result as an observation point. A run is non-trivial iff at least one fault fired or a bound (target, member limit, "
        "clamp) was hit; distinct = distinct (configuration, outcome sequence) digests.")
ASSUMPTIONS = [
    "the corrector is a stub in the protocol leg (its outcomes are the simulated faults); everything else in the loop is the real code",
    "configurations are restricted to those ContinuationOptions._validate accepts (step magnitudes inside [step_min, step_max], seed inside the target box)",
    "when the secant direction is undefined (corrected point equal to the previous member) any prediction is accepted",
    "a custom shrink policy's value is taken as given: the model requires clamp(policy(step)), not that a user policy shrinks",
]
COMPONENTS = {
    "real": ["continuation/backends/pc.py run loop", "continuation/stepping/base.py (_clamp_step, on_accept, on_reject)",
             "stepping/np/base.py", "stepping/sc/base.py", "stepping/support.py (_VectorSpaceSecantSupport)", "stepping factories",
             "e2e leg: continuation/interfaces.py, engine, orbit classes, real corrector, real integrators"],
    "stub": ["protocol leg: corrector callable (scripted outcomes), predictor/parameter getter (index add / index read)"],
}
TIERS = {
    "quick": {"budget_s": 30.0, "max_runs": 150000, "chunk": 250, "run_timeout": 120.0, "min_budget": 30.0,
              "enum_len_ar": 7, "enum_len_arx": 5, "e2e_runs": 100000, "e2e_budget_s": 60.0},
    "thorough": {"budget_s": 420.0, "max_runs": 3_000_000, "chunk": 500, "run_timeout": 120.0, "min_budget": 60.0,
                 "enum_len_ar": 10, "enum_len_arx": 7, "e2e_runs": 10000000, "e2e_budget_s": 900.0},
}

KINDS = ["pass", "reject", "raise_conv", "raise_bare", "pass_jitter", "pass_far", "pass_nanres", "pass_tuple3", "reject_npfalse", "pass_same"]
FAULT_KINDS = {"reject", "raise_conv", "raise_bare", "reject_npfalse"}

_B = None
_R = None
_mk_nat = _mk_sec = _Support = None
_ConvErr = None


def warmup(tier: str) -> None:
    global _B, _R, _mk_nat, _mk_sec, _Support, _ConvErr
    from hiten.algorithms.continuation.backends.pc import _PredictorCorrectorContinuationBackend
    from hiten.algorithms.continuation.stepping import make_natural_stepper, make_secant_stepper
    from hiten.algorithms.continuation.stepping.support import _VectorSpaceSecantSupport
    from hiten.algorithms.continuation.types import ContinuationBackendRequest
    from hiten.algorithms.types.exceptions import ConvergenceError
    _B, _R = _PredictorCorrectorContinuationBackend, ContinuationBackendRequest
    _mk_nat, _mk_sec, _Support = make_natural_stepper, make_secant_stepper, _VectorSpaceSecantSupport
    _ConvErr = ConvergenceError
    if TIERS[tier]["e2e_runs"] > 0:
        from checks import c13_e2e
        c13_e2e.warmup(tier)


# ------------------------------------------------------------------ configuration
BOUNDS = [(1e-10, 1.0), (0.04, 0.2), (0.3, 10.0), (1e-3, 0.5)]
FRACS = [0.5, 0.0, 1.0, 0.1]
RETRIES = [2, 0, 1, 3, 4, 6]
MEMBERS = [5, 1, 2, 3, 8, 12]
BOXK = [1000.0, 2.5, 0.5, 6.2]
IDXS = {1: [[0], [1]], 2: [[0, 1], [2, 0]], 3: [[0, 1, 2], [2, 0, 1]]}
SEEDVALS = [0.0, 0.25, -1.5, 3.0]
JIT = [0.0, 0.01, -0.01, 0.003]
PFAIL = [0.0, 0.1, 0.3, 0.6, 0.85]


def _policy(kind: int):
    if kind == 0:
        return None
    if kind == 1:
        return lambda s: np.asarray(s, float) * 0.25
    if kind == 2:
        def _raises(s):
            raise RuntimeError("injected: shrink policy failure")
        return _raises
    if kind == 3:
        return lambda s: np.asarray(s, float) * 2.0
    if kind == 4:
        return lambda s: np.asarray(s, float)
    return lambda s: np.asarray(s, float) * 1e-12


def draw_config(ds) -> dict:
    c = {}
    c["stepper"] = ds.pick(["natural", "secant"], "cfg.stepper")
    c["dim"] = ds.pick([1, 2, 3], "cfg.dim")
    c["extra"] = ds.pick([0, 2], "cfg.extra")
    nrep = c["dim"] + c["extra"]
    idxs = [ix for ix in IDXS[c["dim"]] if max(ix) < nrep] or [list(range(c["dim"]))]
    c["idx"] = ds.pick(idxs, "cfg.idx")
    c["smin"], c["smax"] = ds.pick(BOUNDS, "cfg.bounds")
    c["step"] = []
    for k in range(c["dim"]):
        f = ds.pick(FRACS, f"cfg.step_frac[{k}]")
        sgn = ds.pick([1.0, -1.0], f"cfg.step_sign[{k}]")
        c["step"].append(sgn * (c["smin"] + f * (c["smax"] - c["smin"])))
    c["R"] = ds.pick(RETRIES, "cfg.max_retries")
    c["M"] = ds.pick(MEMBERS, "cfg.max_members")
    c["boxk"] = ds.pick(BOXK, "cfg.target_halfwidth_in_steps")
    # further components may have their own half-width, so that the interval is left through a component other than the first
    c["boxk_more"] = [ds.pick(BOXK, f"cfg.target_halfwidth_in_steps[{k}]") for k in range(1, c["dim"])]
    c["policy"] = ds.choose(6, "cfg.shrink_policy")
    c["seed"] = [ds.pick(SEEDVALS, f"cfg.seed[{k}]") for k in range(nrep)]
    c["pfail"] = ds.pick(PFAIL, "cfg.fault_rate")
    c["bursty"] = ds.choose(2, "cfg.bursty")
    c["reuse_backend"] = ds.choose(2, "cfg.reuse_backend_after_prior_run", (0.8, 0.2))
    c["prior_outcomes"] = [ds.choose(3, f"cfg.prior.corrector[{k}]", (0.6, 0.25, 0.15)) for k in range(4)] if c["reuse_backend"] else []
    return c


def run_protocol(ctx: RunCtx, c: dict) -> None:
    ds, log = ctx.ds, ctx.log
    dim, idx = c["dim"], c["idx"]
    seedv = np.array(c["seed"], float)
    step0 = np.array(c["step"], float)
    prm0 = seedv[idx]
    half = np.array([c["boxk"]] + list(c.get("boxk_more", [c["boxk"]] * (dim - 1)))[:dim]) * np.abs(step0)
    tmin, tmax = prm0 - half, prm0 + half
    policy = _policy(c["policy"])
    model = ContinuationModel(seed=seedv, idx=idx, step0=step0, target_min=tmin, target_max=tmax,
                              max_members=c["M"], max_retries=c["R"], step_min=c["smin"], step_max=c["smax"],
                              stepper=c["stepper"], shrink=_policy(c["policy"]))
    log.add("cfg", {k: (v if not isinstance(v, float) else fhex(v)) for k, v in c.items() if k not in ("step", "seed")},
            [fhex(x) for x in step0], [fhex(x) for x in seedv])
    state = {"pending": None, "infail": False, "outcomes": []}

    def predictor(last, step):
        last = np.asarray(last, float).copy()
        for i, d in zip(idx, np.asarray(step, float)):
            last[i] += d
        return last

    def getter(v):
        return np.asarray(v, float)[idx]

    pf = c["pfail"]

    def corrector(p):
        ctx.steps += 1
        if ctx.steps > 5000:
            raise Violation("C13/I7-termination", "more than 5000 corrector calls in one run (bound is max_members*(max_retries+1) <= 84)")
        p = np.asarray(p, float)
        try:
            model.on_call(p)
        except ModelMismatch as mm:
            v = Violation(f"C13/{mm.inv}", mm.msg)
            state["pending"] = state["pending"] or v
            raise v
        # fault decision for this call
        p_now = pf if not (c["bursty"] and state["infail"]) else max(pf, 0.8)
        w = [max(1e-9, 1.0 - p_now) * 0.49, p_now * 0.5, p_now * 0.25, p_now * 0.15,
             max(1e-9, 1.0 - p_now) * 0.25, max(1e-9, 1.0 - p_now) * 0.05, max(1e-9, 1.0 - p_now) * 0.05,
             max(1e-9, 1.0 - p_now) * 0.10, p_now * 0.10, max(1e-9, 1.0 - p_now) * 0.06]
        kind = KINDS[ds.choose(len(KINDS), f"corrector[{model.calls}]", w)]
        state["infail"] = kind in FAULT_KINDS
        state["outcomes"].append(kind)
        log.add("call", model.calls, [fhex(x) for x in p], kind)
        if kind in FAULT_KINDS:
            ctx.fault(kind)
            model.on_outcome(False)
            if kind == "raise_conv":
                raise _ConvErr("injected: corrector did not converge")
            if kind == "raise_bare":
                raise RuntimeError("injected: corrector crashed")
            garbage = p + 999.0  # must never reach the family (I8)
            return garbage, 1.0, (np.False_ if kind == "reject_npfalse" else False), {"period": 123.0}
        corrected = p.copy()
        if kind == "pass_jitter":
            for k in range(len(p)):
                corrected[k] += ds.pick(JIT, f"jitter[{model.calls}][{k}]")
            ctx.probe("tangent_turned")
        elif kind == "pass_far":
            corrected[idx[0]] += np.sign(step0[0]) * (2.0 * half[0] + 1.0)
        elif kind == "pass_same":
            # the correction lands on the last member again, bit for bit: the secant through the last two members is undefined
            corrected = model.family[-1].copy()
            ctx.probe("corrected_equals_last_member")
        model.on_outcome(True, corrected)
        res = float("nan") if kind == "pass_nanres" else 1e-13
        if kind == "pass_tuple3":
            return corrected, res, True
        return corrected, res, True, {"period": 1.0 + 0.1 * model.accepted}

    if c["stepper"] == "natural":
        backend = _B(stepper_factory=_mk_nat())
        sfn = predictor
    else:
        backend = _B(stepper_factory=_mk_sec(), support_factory=_Support)
        sfn = lambda v: np.asarray(v, float)  # representation function
    if c.get("reuse_backend"):
        # the same backend instance has already produced another family (other seed, opposite step, a few failures):
        # this run is judged as if it were the first -- nothing may survive from the previous one
        ctx.probe("backend_reused")
        it = iter(c["prior_outcomes"])

        def prior_corrector(pp):
            o = next(it, 0)
            if o == 2:
                raise RuntimeError("injected: prior run failure")
            pp = np.asarray(pp, float)
            return pp + 0.013, 1e-13, o == 0, {"period": 2.0}

        try:
            backend.run(request=_R(seed_repr=seedv + 0.37, stepper_fn=sfn, predictor_fn=predictor, parameter_getter=getter, corrector=prior_corrector,
                                   step=-step0, target=np.array([tmin - 50.0, tmax + 50.0]), max_members=4, max_retries_per_step=1,
                                   shrink_policy=_policy(1), step_min=c["smin"], step_max=c["smax"], metadata={}))
        except Exception:
            pass
    req = _R(seed_repr=seedv.copy(), stepper_fn=sfn, predictor_fn=predictor, parameter_getter=getter, corrector=corrector,
             step=step0.copy(), target=np.array([tmin, tmax]), max_members=c["M"], max_retries_per_step=c["R"],
             shrink_policy=policy, step_min=c["smin"], step_max=c["smax"], metadata={})
    try:
        out = backend.run(request=req)
    except Violation:
        raise
    except Exception as e:
        if state["pending"]:
            raise state["pending"]
        raise Violation("C13/run-raised", f"backend.run raised {type(e).__name__}: {e} after outcomes {state['outcomes']}")
    if state["pending"]:
        raise state["pending"]
    fam = [np.asarray(f, float) for f in out.family_repr]
    info = out.info
    log.add("end", len(fam), int(info["accepted_count"]), int(info["rejected_count"]), int(info["iterations"]),
            [fhex(x) for x in np.asarray(info["final_step"], float)])
    for k, n in model.probes.items():
        ctx.probe(k, n)
    seq = "".join({"pass": "A", "pass_jitter": "J", "pass_far": "F", "pass_nanres": "N", "pass_tuple3": "T", "reject": "r",
                   "reject_npfalse": "f", "raise_conv": "c", "raise_bare": "x", "pass_same": "S"}[k] for k in state["outcomes"])
    ctx.sig_parts = [{k: v for k, v in c.items() if k not in ("pfail", "bursty")}, seq]
    ctx.nontrivial = bool(ctx.faults) or any(k in model.probes for k in ("target_left", "max_members_hit", "clamp_min_bound", "clamp_max_bound"))
    ctx.sample = {"leg": "protocol", "config": {k: v for k, v in c.items()}, "outcomes": seq, "family_size": len(fam),
                  "accepted": int(info["accepted_count"]), "rejected": int(info["rejected_count"]), "stopped_by": model.stopped}
    # ---- end-of-run oracles -------------------------------------------------
    if len(fam) > c["M"]:
        raise Violation("C13/I1-member-limit", f"family has {len(fam)} members, max_members={c['M']}")
    if model.stopped is None:
        raise Violation("C13/I7-stopped-early", f"run ended after outcomes '{seq}' although the member limit ({c['M']}), the target box and the "
                                                 f"retry limit ({c['R']}) were not reached; family size {len(fam)}")
    if len(fam) != len(model.family) or any(not np.array_equal(a, b) for a, b in zip(fam, model.family)):
        raise Violation("C13/I8-family-content", f"family differs from the accepted corrector outputs: got {[f.tolist() for f in fam]}, "
                                                  f"expected {[f.tolist() for f in model.family]}")
    for i, f in enumerate(fam[:-1]):
        prm = f[idx]
        if np.any(prm < tmin) or np.any(prm > tmax):
            raise Violation("C13/I3-target-stop", f"member {i} of {len(fam)} lies outside the target box but is not the last member")
    if int(info["accepted_count"]) != len(fam) or len(info["parameter_values"]) != len(fam):
        raise Violation("C13/I6-accepted-count", f"accepted_count={info['accepted_count']}, parameter_values={len(info['parameter_values'])}, family={len(fam)}")
    if int(info["rejected_count"]) != model.rejected:
        raise Violation("C13/I6-rejected-count", f"rejected_count={info['rejected_count']} but {model.rejected} corrector calls failed ('{seq}')")
    if int(info["iterations"]) != model.calls:
        raise Violation("C13/I6-iterations", f"iterations={info['iterations']} but the corrector was called {model.calls} times")
    for i, (pv, f) in enumerate(zip(info["parameter_values"], fam)):
        if not np.array_equal(np.asarray(pv, float), f[idx]):
            raise Violation("C13/I6-parameter-values", f"parameter_values[{i}]={np.asarray(pv).tolist()} != parameters of member {f[idx].tolist()}")
    fs = np.asarray(info["final_step"], float)
    if fs.shape != model.step.shape or not np.allclose(fs, model.step, rtol=1e-12, atol=0.0):
        raise Violation("C13/I4-step-control", f"final step {fs.tolist()} != expected {model.step.tolist()} after outcomes '{seq}'")
    if model.calls > 0:
        mag = np.abs(fs)
        if np.any(mag < c["smin"] * (1 - 1e-12)) or np.any(mag > c["smax"] * (1 + 1e-12)) or np.any(np.sign(fs) != np.sign(step0)):
            raise Violation("C13/I4-step-bounds", f"final step {fs.tolist()} outside [{c['smin']},{c['smax']}] or sign flipped from {step0.tolist()}")


def execute_protocol(ctx: RunCtx) -> None:
    c = draw_config(ctx.ds)
    run_protocol(ctx, c)


def _execute_e2e(ctx: RunCtx) -> None:
    from checks import c13_e2e
    c13_e2e.execute(ctx)


LEGS = {"protocol": execute_protocol, "e2e": _execute_e2e}


# ------------------------------------------------------------------ exhaustive enumeration
ENUM_GRID = None


def _enum_grid():
    """24 configurations: stepper x (R in 0,1,2) x (M in 2,4) x (non-binding, binding clamp+tight target)."""
    out = []
    for stepper, R, M, tight in itertools.product([0, 1], [1, 2, 0], [3, 2], [0, 1]):  # indices into pick lists
        out.append((stepper, R, M, tight))
    return out


def _config_prefix(stepper, R, M, tight):
    """Choice-sequence prefix selecting a grid configuration: draw_config is run against forced labelled values."""
    from simkit.decisions import Decisions

    forced = {"cfg.stepper": stepper, "cfg.extra": 1 if stepper == 1 else 0, "cfg.bounds": 1 if tight else 0,
              "cfg.max_retries": R, "cfg.max_members": M, "cfg.target_halfwidth_in_steps": 1 if tight else 0}

    class _Forced(Decisions):
        def choose(self, n, label, weights=None):
            if n <= 1:
                return 0
            v = forced.get(label, 0)
            self.record.append((v, n, label))
            return v

    d = _Forced(replay=[])
    draw_config(d)
    return d.values()


def enumeration_jobs(max_len_ar: int, max_len_arx: int):
    """All accept/reject sequences up to max_len_ar and accept/reject/raise up to max_len_arx, per grid configuration.
    A sequence shorter than the run needs is padded with 'pass' (value 0) by the decision source."""
    tag = 0
    for g in _enum_grid():
        pre = _config_prefix(*g)
        for L in range(0, max_len_ar + 1):
            for seq in itertools.product([0, 1], repeat=L):
                if L and seq[-1] == 0:
                    continue  # trailing passes are implied by padding: avoid duplicates
                yield ("values", tag, "protocol", pre + list(seq))
                tag += 1
        for L in range(1, max_len_arx + 1):
            for seq in itertools.product([0, 1, 3], repeat=L):
                if seq[-1] == 0 or 3 not in seq:
                    continue
                yield ("values", tag, "protocol", pre + list(seq))
                tag += 1


def pre_phases(report, cfg, procs):
    from simkit.driver import run_jobs
    import checks.c13 as me
    jobs = enumeration_jobs(cfg["enum_len_ar"], cfg["enum_len_arx"])
    run_jobs(me, report, jobs, procs=procs, budget_s=3600.0, chunk=400, run_timeout=cfg["run_timeout"],
             min_budget=cfg["min_budget"], phase="enumeration")
    ph = report.phase_stats.get("enumeration", {})
    report.extra["enumeration"] = {
        "configs": len(_enum_grid()),
        "accept_reject_sequences_up_to_length": cfg["enum_len_ar"],
        "accept_reject_raise_sequences_up_to_length": cfg["enum_len_arx"],
        "runs": ph.get("runs"),
        "complete": bool(ph.get("exhausted_job_list")),
    }
    report.exhaustive = False  # the enumeration is exhaustive within its stated bound; the seeded search is not


def post_phases(report, cfg, procs):
    if cfg["e2e_runs"] <= 0:
        return
    from simkit.driver import run_jobs
    import checks.c13 as me
    jobs = (("seed", i, "e2e") for i in range(cfg["e2e_runs"]))
    run_jobs(me, report, jobs, procs=procs, budget_s=cfg["e2e_budget_s"], chunk=1, run_timeout=600.0,
             min_budget=120.0, phase="e2e")
