"""C13 end-to-end leg: real orbit families with forced failures of the real corrector (DESIGN.md 3.2)."""
from __future__ import annotations

import numpy as np

from models.contmodel import ContinuationModel, ModelMismatch
from simkit.decisions import fhex
from simkit.run import RunCtx, Violation

E: dict = {}
# (system, point, family, ctor kwargs, continuation state index name, step magnitudes)
SPECS = [("em", 1, "halo", {"amplitude_z": 0.2, "zenith": "southern"}, "Z", [0.01, 0.004, 0.02]),
         ("em", 1, "lyapunov", {"amplitude_x": 0.05}, "X", [0.002, 0.001, 0.004]),
         ("em", 2, "halo", {"amplitude_z": 0.15, "zenith": "northern"}, "Z", [0.008, 0.004, 0.015]),
         ("se", 1, "halo", {"amplitude_z": 0.1, "zenith": "northern"}, "Z", [0.0005, 0.001])]
SECOND = {"halo": "X", "lyapunov": "VY"}


def warmup(tier):
    if E:
        return
    import warnings
    warnings.filterwarnings("ignore")
    import numba
    numba.set_num_threads(1)
    from hiten import System
    E["sys"] = {"em": System.from_bodies("earth", "moon"), "se": System.from_bodies("sun", "earth")}
    E["seeds"] = {}
    for i, (s, p, fam, kw, st, steps) in enumerate(SPECS):
        lp = E["sys"][s].get_libration_point(p)
        o = lp.create_orbit(fam, **kw)
        o.correct()
        E["seeds"][i] = (np.array(o.initial_state, float), float(o.period))


def execute(ctx: RunCtx) -> None:
    from hiten.algorithms.continuation.config import OrbitContinuationConfig
    from hiten.algorithms.continuation.options import OrbitContinuationOptions
    from hiten.algorithms.types.exceptions import ConvergenceError
    from hiten.algorithms.types.states import SynodicState
    from hiten.system.libration.collinear import L1Point, L2Point
    from hiten.system.orbits.base import PeriodicOrbit
    from hiten.system.orbits.halo import HaloOrbit
    from hiten.system.orbits.lyapunov import LyapunovOrbit
    from models import cr3bp_ref
    ds, log = ctx.ds, ctx.log
    si = ds.choose(len(SPECS), "e2e.spec")
    s, p, fam, kw, st, steps = SPECS[si]
    stepper = ds.pick(["natural", "secant"], "e2e.stepper")
    mag = ds.pick(steps, "e2e.step")
    sign = ds.pick([1.0, -1.0], "e2e.sign")
    M = ds.pick([4, 2, 3, 5, 6], "e2e.max_members")
    R = ds.pick([1, 0, 2, 3], "e2e.max_retries")
    boxk = ds.pick([1000.0, 2.5, 1.5], "e2e.target_halfwidth_in_steps")
    tol = ds.pick([1e-10, 1e-8], "e2e.tol")
    pfail = ds.pick([0.0, 0.25, 0.5, 0.8], "e2e.fault_rate")
    # continuation state: the family's own parameter alone, or together with a second component listed after / before it
    # (a sequence of components is part of the documented configuration; the listed order is the order of step and target)
    second = SECOND[fam]
    comps = ds.pick([(st,), (st, second), (second, st)], "e2e.state_components")
    frac2 = ds.pick([0.5, -0.25, 0.1], "e2e.second_step_fraction") if len(comps) > 1 else 0.0
    cfgd = {"spec": f"{s}-L{p}-{fam}", "stepper": stepper, "step": sign * mag, "M": M, "R": R, "boxk": boxk, "tol": tol, "pfail": pfail}
    if len(comps) > 1:
        cfgd["state"], cfgd["second_step"] = list(comps), frac2 * mag
    cfgd_late = cfgd
    log.add("cfg", {k: (fhex(v) if isinstance(v, float) else v) for k, v in cfgd.items()})
    system = E["sys"][s]
    lp = {1: L1Point, 2: L2Point}[p](system)
    x_seed, T_seed = E["seeds"][si]
    cls = {"halo": HaloOrbit, "lyapunov": LyapunovOrbit}[fam]
    seed = cls(lp, initial_state=x_seed.copy())
    seed_has_period = not ds.flag("e2e.seed_period_none", 0.2)
    if seed_has_period:
        seed.period = T_seed
    prior_generate = ds.flag("e2e.prior_generate_with_other_options", 0.2)
    prior_loose = prior_generate and ds.flag("e2e.prior_generate_with_loose_corrector", 0.6)
    prior_same = prior_generate and not prior_loose and ds.flag("e2e.prior_generate_same_options_other_stepper", 0.5)
    prior_state = prior_generate and not prior_same and ds.flag("e2e.prior_generate_under_other_state_components", 0.4)
    idx = int(getattr(SynodicState, st).value)
    idxs = [int(getattr(SynodicState, c).value) for c in comps]
    state_arg = getattr(SynodicState, st) if len(comps) == 1 else tuple(getattr(SynodicState, c) for c in comps)
    seed.continuation_config = OrbitContinuationConfig(state=state_arg, stepper=stepper)
    steps_l = [sign * mag if c == st else frac2 * mag for c in comps]
    step0 = np.array(steps_l)
    prm0 = x_seed[idx]
    half = boxk * mag
    # the second component is moved by the corrector itself: its interval is wide unless the box is the loose one anyway
    tmin_l = [x_seed[i] - (half if c == st else 1000.0 * mag) for c, i in zip(comps, idxs)]
    tmax_l = [x_seed[i] + (half if c == st else 1000.0 * mag) for c, i in zip(comps, idxs)]
    from hiten.algorithms.corrector.options import OrbitCorrectionOptions
    extra = seed.correction_options.merge(**{"base.convergence.tol": tol})
    opts = OrbitContinuationOptions(target=(tmin_l, tmax_l), step=tuple(steps_l), max_members=M, max_retries_per_step=R,
                                    step_min=1e-10, step_max=1.0, extra_params=extra)
    model = ContinuationModel(seed=x_seed, idx=idxs, step0=step0, target_min=tmin_l, target_max=tmax_l, max_members=M,
                              max_retries=R, step_min=1e-10, step_max=1.0, stepper=stepper, shrink=None)
    state = {"pending": None, "records": [], "outcomes": ""}
    real_correct = PeriodicOrbit.correct

    def correct_with_faults(self, options=None):
        if self is seed:
            return real_correct(self, options)
        ctx.steps += 1
        pred = np.array(self.initial_state, float)
        try:
            model.on_call(pred)
        except ModelMismatch as mm:
            v = Violation(f"C13/{mm.inv}", mm.msg + f" [e2e {cfgd}]")
            state["pending"] = state["pending"] or v
            raise v
        kind = ds.choose(4, f"corrector[{model.calls}]", (1.0 - pfail, pfail * 0.5, pfail * 0.3, pfail * 0.2))
        if kind == 1:
            ctx.fault("forced_ConvergenceError")
            state["outcomes"] += "c"
            model.on_outcome(False)
            raise ConvergenceError("injected: correction forced to fail")
        if kind == 2:
            # the real corrector is starved of iterations: a genuine failure through the real path
            ctx.fault("starved_max_attempts")
            starved = options.merge(**{"base.convergence.max_attempts": 1}) if options is not None else None
            try:
                real_correct(self, starved)
            except Exception:
                state["outcomes"] += "s"
                model.on_outcome(False)
                raise
            # converged with zero iterations: a legitimate accept
        try:
            res = real_correct(self, options)
        except Violation:
            raise
        except Exception:
            state["outcomes"] += "r"
            ctx.probe("real_corrector_failed")
            model.on_outcome(False)
            raise
        if kind == 3:
            # the correction comes back flagged as not converged instead of raising: a failed correction all the same
            import dataclasses
            ctx.fault("returned_flagged_unconverged")
            state["outcomes"] += "u"
            model.on_outcome(False)
            return dataclasses.replace(res, converged=False)
        state["outcomes"] += "A"
        xc = np.array(res.x_corrected, float)
        model.on_outcome(bool(res.converged), xc if res.converged else None)
        state["records"].append({"x": xc, "T": 2.0 * float(res.half_period), "res": float(res.residual_norm), "conv": bool(res.converged)})
        return res

    prior = None
    if prior_generate:
        # the seed object already produced another family (other limits): this one must not inherit anything from it
        try:
            if prior_same:
                # the very same options, under the other stepper: the configuration is then set back to the run's own
                seed.continuation_config = OrbitContinuationConfig(state=state_arg, stepper="secant" if stepper == "natural" else "natural")
                prior = seed.generate(opts)
                seed.continuation_config = OrbitContinuationConfig(state=state_arg, stepper=stepper)
            elif prior_state:
                # same stepper, other continuation components (the family parameter alone <-> together with the second component)
                ocomps = (st, SECOND[fam]) if len(comps) == 1 else (st,)
                oidx = [int(getattr(SynodicState, c).value) for c in ocomps]
                seed.continuation_config = OrbitContinuationConfig(state=tuple(getattr(SynodicState, c) for c in ocomps) if len(ocomps) > 1 else getattr(SynodicState, st),
                                                                   stepper=stepper)
                prior = seed.generate(OrbitContinuationOptions(target=([x_seed[i] - 1000 * mag for i in oidx], [x_seed[i] + 1000 * mag for i in oidx]),
                                                               step=tuple(-sign * mag * (1.0 if c == st else 0.5) for c in ocomps), max_members=2,
                                                               max_retries_per_step=0, step_min=1e-10, step_max=1.0, extra_params=extra))
            else:
                prior = seed.generate(OrbitContinuationOptions(target=([x_seed[i] - 1000 * mag for i in idxs], [x_seed[i] + 1000 * mag for i in idxs]),
                                                               step=tuple(-v for v in steps_l), max_members=2,
                                                               max_retries_per_step=0, step_min=1e-10, step_max=1.0,
                                                               extra_params=(seed.correction_options.merge(**{"base.convergence.tol": 1e-4, "base.convergence.max_attempts": 7})
                                                                             if prior_loose else extra)))
            ctx.probe("prior_generate")
            prior = (prior, [(o, np.array(o.initial_state, float), o.period) for o in prior.family], int(prior.accepted_count), int(prior.rejected_count))
        except Exception:
            prior = None
        if prior_same or prior_state:
            seed.continuation_config = OrbitContinuationConfig(state=state_arg, stepper=stepper)
    PeriodicOrbit.correct = correct_with_faults
    try:
        try:
            result = seed.generate(opts)
        except Violation:
            raise
        except Exception as e:
            if state["pending"]:
                raise state["pending"]
            raise Violation("C13/e2e-generate-raised", f"generate raised {type(e).__name__}: {e} after outcomes '{state['outcomes']}' [{cfgd}]")
    finally:
        PeriodicOrbit.correct = real_correct
    if state["pending"]:
        raise state["pending"]
    fam_objs = list(result.family)
    seq = state["outcomes"]
    log.add("end", len(fam_objs), int(result.accepted_count), int(result.rejected_count), int(result.iterations), seq)
    cfgd["seed_has_period"], cfgd["prior_generate"] = seed_has_period, ("loose corrector" if prior_loose else ("same options, other stepper" if prior_same else ("other state components" if prior_state else prior_generate)))
    ctx.sig_parts = [cfgd, seq]
    ctx.nontrivial = bool(ctx.faults) or model.stopped in ("target", "max_members")
    ctx.sample = {"leg": "e2e", "config": cfgd, "outcomes": seq, "family_size": len(fam_objs), "stopped_by": model.stopped}
    for k, n in model.probes.items():
        ctx.probe(k, n)
    what = f"e2e family {cfgd}, corrector outcomes '{seq}'"
    if model.stopped is None:
        raise Violation("C13/I7-stopped-early", f"{what}: generation ended although neither the member limit, the target interval nor the retry limit was reached")
    if len(fam_objs) != len(model.family):
        raise Violation("C13/I8-family-content", f"{what}: family has {len(fam_objs)} members, the accepted corrections give {len(model.family)}")
    if len(fam_objs) > M:
        raise Violation("C13/I1-member-limit", f"{what}: {len(fam_objs)} members > max_members {M}")
    if int(result.accepted_count) != len(fam_objs) or len(result.parameter_values) != len(fam_objs):
        raise Violation("C13/I6-accepted-count", f"{what}: accepted_count={result.accepted_count}, parameter_values={len(result.parameter_values)}, family={len(fam_objs)}")
    if int(result.rejected_count) != model.rejected:
        raise Violation("C13/I6-rejected-count", f"{what}: rejected_count={result.rejected_count}, failed corrections={model.rejected}")
    if int(result.iterations) != model.calls:
        raise Violation("C13/I6-iterations", f"{what}: iterations={result.iterations}, corrector calls={model.calls}")
    tmin, tmax = np.array(tmin_l), np.array(tmax_l)
    for i, (o, xm) in enumerate(zip(fam_objs, model.family)):
        x = np.array(o.initial_state, float)
        if not np.array_equal(x, xm):
            raise Violation("C13/I8-family-content", f"{what}: member {i} has initial_state {x.tolist()}, its accepted correction gave {xm.tolist()}")
        if not np.array_equal(np.asarray(result.parameter_values[i], float).ravel(), x[idxs]):
            raise Violation("C13/I6-parameter-values", f"{what}: parameter_values[{i}]={np.asarray(result.parameter_values[i]).tolist()} != member's {list(comps)}={x[idxs].tolist()}")
        if i < len(fam_objs) - 1 and not (np.all(tmin <= x[idxs]) and np.all(x[idxs] <= tmax)):
            raise Violation("C13/I3-target-stop", f"{what}: member {i} of {len(fam_objs)} is outside the target interval but is not the last")
        if i >= 1:
            rec = state["records"][i - 1]
            if o.period is None or abs(float(o.period) - rec["T"]) > 1e-12 * max(1.0, rec["T"]):
                raise Violation("C13/member-period", f"{what}: member {i} carries period {o.period!r}; its own correction found 2*half_period={rec['T']!r} "
                                                     f"(seed period {T_seed if seed_has_period else None!r})")
            if not (rec["res"] < tol):
                raise Violation("C13/member-constraint", f"{what}: member {i} was accepted with residual {rec['res']:.3e} >= tol {tol:.1e}")
    # members are objects of their own
    for i in range(len(fam_objs)):
        for j in range(i + 1, len(fam_objs)):
            if fam_objs[i] is fam_objs[j]:
                raise Violation("C13/I8-family-content", f"{what}: members {i} and {j} are the same object")
    if prior is not None:
        pres, psnap, pacc, prej = prior
        if pres.family is result.family or len(pres.family) != len(psnap) or int(pres.accepted_count) != pacc or int(pres.rejected_count) != prej \
                or any(o is not o0 or not np.array_equal(np.array(o.initial_state, float), x0_) or o.period != T0_
                       for o, (o0, x0_, T0_) in zip(pres.family, psnap) if o is not seed):
            raise Violation("C13/earlier-result-changed", f"{what}: the result of an earlier generate() on the same seed was changed by this one")
    # the family container built from the result (third observation point of the property)
    from hiten.system.family import OrbitFamily
    try:
        fam2 = OrbitFamily.from_result(result, parameter_name=st)
    except Exception as e:
        raise Violation("C13/family-from-result", f"{what}: OrbitFamily.from_result raised {type(e).__name__}: {e}")
    if len(fam2) != len(fam_objs):
        raise Violation("C13/family-from-result", f"{what}: OrbitFamily.from_result holds {len(fam2)} orbits, the result {len(fam_objs)}")
    for i, (a, b) in enumerate(zip(fam2, fam_objs)):
        xa = np.array(a.initial_state, float)
        if not np.array_equal(xa, np.array(b.initial_state, float)) or a.period != b.period:
            raise Violation("C13/family-from-result", f"{what}: orbit {i} of OrbitFamily.from_result differs from member {i} of the result")
        want = xa[idxs][0] if len(idxs) == 1 else float(np.linalg.norm(xa[idxs]))
        if not abs(float(fam2.parameter_values[i]) - want) <= 1e-15 * max(1.0, abs(want)):
            raise Violation("C13/family-from-result", f"{what}: OrbitFamily.parameter_values[{i}]={fam2.parameter_values[i]!r}, member's parameter {want!r}")
        if not (np.isnan(fam2.periods[i]) if b.period is None else fam2.periods[i] == b.period):
            raise Violation("C13/family-from-result", f"{what}: OrbitFamily.periods[{i}]={fam2.periods[i]!r}, member's period {b.period!r}")
    ctx.probe("family_container_checked")
    # independent closure of up to two members (costly)
    cand = list(range(1, len(fam_objs)))
    for _ in range(min(2, len(cand))):
        i = cand.pop(ds.choose(len(cand), "e2e.closure.member"))
        o = fam_objs[i]
        err, Mn, _ = cr3bp_ref.closure(float(system.mu), np.array(o.initial_state, float), float(o.period))
        bound = 50.0 * max(Mn, 1.0) * max(tol, 1e-12)
        ctx.probe("members_closed_independently")
        if err > bound:
            raise Violation("C13/member-closure", f"{what}: member {i} (state {np.array(o.initial_state).tolist()}, period {o.period}) misses its start by "
                                                  f"{err:.3e} > {bound:.3e} under an independent DOP853 propagation (||M||={Mn:.3e})")
