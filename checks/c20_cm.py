"""C20 libration-point / centre-manifold / map machine: histories against fresh twins."""
from __future__ import annotations

import os

import numpy as np

from checks import c20 as base
from checks.c20 import attempt, brief, digest, eq, known_active, twin_memo
from simkit.run import RunCtx, Violation

DEGS = [4, 3, 5]
FORMS = ["center_manifold_real", "physical", "complex_partial_normal", "real_modal"]
ENERGY = 0.6
PT4 = [0.01, 0.0, 0.02, 0.0]
PT2 = [0.05, 0.01]
SYN = [0.8369, 0.001, 0.002, 0.0007, -1.5e-5, 0.0]
PT4_NEAR = [0.01 + 1e-7, 0.0, 0.02, 0.0]       # neighbours of the points above: distinct inputs must not share an entry
SYN_NEAR = [0.8369, 0.001, 0.002 + 1e-7, 0.0007, -1.5e-5, 0.0]
ENERGY2 = 0.45
DYN = ("dynsys", "var_dynsys", "jacobian_dynsys")
MAPOPTS = [(1, 2e-2), (2, 2e-2), (1, 1e-2)]          # (n_iter, dt)
SECTIONS = ["q3", "q2"]
STRATEGIES = ["axis_aligned", "radial"]

ALPHABET = (
    [("setdeg", d) for d in DEGS]
    + [("cm_ham", d) for d in DEGS]
    + [("read_degree",)]
    + [("compute", f) for f in FORMS[:3]]
    + [("to_synodic4",), ("to_synodic2", "q3"), ("to_cm",)]
    + [("lp_ham", d, f) for d in DEGS[:2] for f in FORMS[:2]]
    + [("lp_get_cm", d) for d in DEGS]
    + [("lp_hamsys", d, f) for d in DEGS[:2] for f in FORMS[:2]]
    + [("lp_genfun", d) for d in DEGS[:2]] + [("lp_hams", d) for d in DEGS[:2]]
    + [("lp_read", n) for n in ("position", "energy", "jacobi", "eigenvalues", "linear_data", "normal_form_transform", "is_stable")]
    + [("bad_degree",), ("save_load",), ("lp_save_load",), ("sys_save_load",)]
    + [("map_compute", s, o) for s in range(len(SECTIONS)) for o in range(len(MAPOPTS))]
    + [("map_refetch",), ("map_points", 0), ("map_points", 1), ("map_states", 0), ("map_set_strategy", 0), ("map_set_strategy", 1), ("map_save_load",)]
    # appended later (indices of the operations above stay what they were)
    + [("lp_read", n) for n in ("eigenvectors", "gamma", "linear_modes", "mu", "idx")]
    + [("lp_dyn", n) for n in DYN] + [("sys_dyn", n) for n in DYN] + [("sys_read", "mu")]   # not `distance`: the twins are built from named bodies, the systems under test from mu alone
    + [("to_synodic4_near",), ("to_synodic2_energy2", "q3"), ("to_synodic2", "p3"), ("to_cm_near",)]
)
WEIGHTS = {"setdeg": 1.5, "cm_ham": 1.2, "read_degree": 0.8, "compute": 1.0, "to_synodic4": 0.6, "to_synodic2": 0.5, "to_cm": 0.5, "lp_ham": 1.0,
           "lp_get_cm": 1.0, "lp_read": 1.2, "lp_dyn": 0.4, "sys_dyn": 0.4, "sys_read": 0.2, "to_synodic4_near": 0.3, "to_synodic2_energy2": 0.3, "to_cm_near": 0.3, "lp_hamsys": 0.6, "lp_genfun": 0.4, "lp_hams": 0.4, "bad_degree": 0.4, "save_load": 0.2, "lp_save_load": 0.25, "sys_save_load": 0.2, "map_compute": 1.6, "map_refetch": 0.5, "map_points": 0.8, "map_states": 0.4, "map_set_strategy": 0.7, "map_save_load": 0.4}
REDUCED = [("setdeg", 3), ("setdeg", 5), ("cm_ham", 5), ("cm_ham", 4), ("read_degree",), ("compute", "center_manifold_real"), ("to_synodic4",),
           ("lp_ham", 4, "physical"), ("lp_get_cm", 4), ("map_compute", 0, 0), ("map_compute", 0, 1), ("map_refetch",)]
MUTATORS = {"setdeg", "cm_ham", "bad_degree", "save_load"}


def _lp(U, uni, where=("em", 1)):
    from hiten.system.libration.collinear import L1Point, L2Point
    return {1: L1Point, 2: L2Point}[where[1]](U[uni][where[0]])


def _norm(v):
    """Comparable form of linear data / tuples of arrays."""
    import dataclasses
    if isinstance(v, np.ndarray):
        return np.array(v)
    if hasattr(v, "_asdict"):
        return {k: _norm(x) for k, x in v._asdict().items()}
    if dataclasses.is_dataclass(v) and not isinstance(v, type):
        return {f.name: _norm(getattr(v, f.name)) for f in dataclasses.fields(v)}
    if isinstance(v, (tuple, list)):
        return [_norm(x) for x in v]
    return v


def _cm(lp, d):
    from hiten.system.center import CenterManifold
    return CenterManifold(lp, d)


def _mapopts(i):
    from hiten.algorithms.poincare.centermanifold.options import CenterManifoldMapOptions
    from hiten.algorithms.poincare.core.options import IterationOptions, SeedingOptions
    from hiten.algorithms.types.options import IntegrationOptions, WorkerOptions
    n_iter, dt = MAPOPTS[i]
    return CenterManifoldMapOptions(iteration=IterationOptions(n_iter=n_iter), seeding=SeedingOptions(n_seeds=4), workers=WorkerOptions(n_workers=1),
                                    integration=IntegrationOptions(dt=dt, order=4, max_steps=1500))


def _mapconfig(strategy):
    from hiten.algorithms.poincare.centermanifold.config import CenterManifoldMapConfig
    from hiten.algorithms.types.configs import IntegrationConfig
    return CenterManifoldMapConfig(seed_strategy=strategy, seed_axis=None, section_coord="q3", integration=IntegrationConfig(method="fixed"))


def _twin_map(U, c, strategy):
    pm = _cm(_lp(U, "sys_twin", c["where"]), c["deg"]).poincare_map(ENERGY)
    if strategy != "axis_aligned":
        pm.config = _mapconfig(strategy)
    return pm


def hsig(h):
    return {"degree": int(h.degree) if hasattr(h, "degree") else None, "blocks": [np.asarray(b) for b in h.poly_H]}


def warmup(U, tier):
    # The normal-form machinery has no per-System closures: compiling it once (one universe, one degree per code path)
    # is enough for the forked workers; everything else is computed lazily and memoised per worker.
    lp = _lp(U, "sys_real")
    cm = _cm(lp, 4)
    for f in FORMS[:3]:
        cm.compute(f)
    cm.to_synodic(PT4)
    cm.to_cm(SYN)
    cm.to_synodic(PT2, ENERGY, "q3")
    cm.poincare_map(ENERGY).compute(section_coord="q3", options=_mapopts(0))
    lp.hamiltonian(4, "physical")
    lp.generating_functions(4)
    _cm(lp, 5).compute("center_manifold_real")


def map_rows(res):
    st = np.asarray(res.states, float).reshape(-1, 4)
    tm = np.asarray(res.times, float).reshape(-1)
    order = np.lexsort(tuple(st.T[::-1])) if len(st) else np.arange(0)
    return {"states": st[order], "times": tm[order], "points": np.asarray(res.points, float).reshape(-1, 2)[order], "labels": tuple(res.labels)}


def apply_cm(cm, lp, op):
    """Operations on a centre manifold `cm` living on libration point `lp`."""
    k = op[0]
    if k == "setdeg":
        cm.degree = op[1]
        return None
    if k == "bad_degree":
        cm.degree = 0
        return None
    if k == "cm_ham":
        return hsig(cm.hamiltonian(op[1]))
    if k == "read_degree":
        return int(cm.degree)
    if k == "compute":
        return hsig(cm.compute(op[1]))
    if k == "to_synodic4":
        return np.array(cm.to_synodic(PT4))
    if k == "to_synodic2":
        return np.array(cm.to_synodic(PT2, ENERGY, op[1]))
    if k == "to_cm":
        return np.array(cm.to_cm(SYN))
    if k == "lp_ham":
        return hsig(lp.hamiltonian(op[1], op[2]))
    if k == "lp_get_cm":
        return int(lp.get_center_manifold(op[1]).degree)
    if k == "lp_hamsys":
        hs = lp.hamiltonian_system(op[2], op[1])
        return {"degree": int(hs.degree), "blocks": [np.asarray(b) for b in hs.poly_H()]}
    if k == "lp_genfun":
        return [{"degree": int(g.degree), "G": [np.asarray(b) for b in g.poly_G]} for g in lp.generating_functions(op[1])]
    if k == "lp_hams":
        return {name: hsig(h) for name, h in sorted(lp.hamiltonians(op[1]).items())}
    if k == "lp_read":
        return _norm(getattr(lp, op[1]))
    if k in ("lp_dyn", "sys_dyn"):
        d = getattr(lp if k == "lp_dyn" else lp.system, op[1])
        y = np.zeros(int(d.dim))
        y[:min(6, len(y))] = [0.8, 0.01, 0.02, 0.0, 0.1, 0.0][:min(6, len(y))]
        if len(y) == 42:
            y[6:] = np.eye(6).ravel()
        return {"dim": int(d.dim), "mu": float(d.mu), "rhs": np.asarray(d.rhs(0.0, y), float)}
    if k == "sys_read":
        return float(getattr(lp.system, op[1]))
    if k == "to_synodic4_near":
        return np.array(cm.to_synodic(PT4_NEAR))
    if k == "to_synodic2_energy2":
        return np.array(cm.to_synodic(PT2, ENERGY2, op[1]))
    if k == "to_cm_near":
        return np.array(cm.to_cm(SYN_NEAR))
    raise AssertionError(op)


def run_history(ctx: RunCtx, U) -> None:
    ds, log = ctx.ds, ctx.log
    from hiten import System
    # fresh Systems per run: System-level memo entries (libration points) must not leak between runs
    systems = {"em": System.from_mu(float(U["sys_twin"]["em"].mu))}   # generic body names: see checks/c20.py warmup
    where0 = ("em", 1 + ds.choose(2, "lp[0].point"))
    lps = [{"where": where0, "real": systems["em"].get_libration_point(where0[1])}]
    second = ds.choose(4, "lp[1].kind", (0.5, 0.2, 0.15, 0.15))   # 0 none, 1 other point of the same system, 2 same point fetched again, 3 L1 of another system
    if second == 1:
        w = ("em", 3 - where0[1])
        lps.append({"where": w, "real": systems["em"].get_libration_point(w[1])})
    elif second == 2:
        lps.append({"where": where0, "real": systems["em"].get_libration_point(where0[1])})
    elif second == 3:
        systems["se"] = System.from_mu(float(U["sys_twin"]["se"].mu))
        lps.append({"where": ("se", 1), "real": systems["se"].get_libration_point(1)})
    n_cm = 1 + ds.choose(2, "cm.n_objects", (0.65, 0.35))
    cms = []
    for j in range(n_cm):
        d0 = DEGS[ds.choose(len(DEGS), f"cm[{j}].degree")]
        via_lp = bool(ds.choose(2, f"cm[{j}].via_lp.get_center_manifold"))
        L = lps[ds.choose(len(lps), f"cm[{j}].lp")] if len(lps) > 1 else lps[0]
        cm = L["real"].get_center_manifold(d0) if via_lp else _cm(L["real"], d0)
        # model: the logical state of a centre manifold is (system, point, degree); held map: last compute args
        cms.append({"real": cm, "deg": d0, "via_lp": via_lp, "map": None, "reloaded": False, "lp": L["real"], "where": L["where"]})
        for other in cms[:-1]:
            if other["real"] is cm:
                cms[-1]["deg"] = other["deg"]
    log.add("objects", [(c["deg"], c["via_lp"], c["where"]) for c in cms], [L["where"] for L in lps])
    hist: list = []
    weights = [0.0] + [WEIGHTS[a[0]] / sum(1 for b in ALPHABET if b[0] == a[0]) for a in ALPHABET]
    if ds.flag("cm.map_focused_history", 0.3):
        # histories made of map operations (and degree changes) only: the map service has the densest bookkeeping
        weights = [0.0] + [(w if a[0].startswith("map_") else (0.3 * w if a[0] in ("setdeg", "save_load") else 0.0)) for a, w in zip(ALPHABET, weights[1:])]
        ctx.probe("map_focused_history")
    max_len = 12 if ctx.tier == "quick" else 25
    mutated = False
    while len(hist) < max_len:
        w = list(weights)
        w[0] = 0.08 if hist else 0.0
        kk = ds.choose(len(ALPHABET) + 1, f"op[{len(hist)}]", w)
        if kk == 0:
            break
        op = ALPHABET[kk - 1]
        j = ds.choose(n_cm, f"op[{len(hist)}].object") if n_cm > 1 else 0
        c = cms[j]
        entry = (j,) + tuple(op)
        hist.append(entry)
        k = op[0]
        if mutated and k not in ("setdeg", "bad_degree"):
            ctx.nontrivial = True
            ctx.probe("reads_after_mutation")
        # aliasing bookkeeping: two handles obtained through lp.get_center_manifold(d) with the same d are the same logical object
        # ------------------------------------------------------------ persistence
        if k == "save_load":
            path = base.tmp_path(f"cm_{len(hist)}_{j}.pkl")
            out = attempt(lambda: c["real"].save(path))
            if out.failed:
                raise Violation("C20/cm/save-raised", f"save raised {out.kind()}: {out.exc} | history: {hist}")
            out = attempt(lambda: type(c["real"]).load(path))
            try:
                os.remove(path)
            except OSError:
                pass
            if out.failed:
                raise Violation("C20/cm/load-raised", f"load raised {out.kind()}: {out.exc} | history: {hist}")
            c["real"] = out.value
            c["map"] = None
            c["reloaded"] = True
            ctx.probe("reload_then_continue")
            got = attempt(lambda: int(c["real"].degree))
            if got.failed or got.value != c["deg"]:
                raise Violation("C20/cm/roundtrip-degree", f"after save/load the centre manifold has degree {got.value if not got.failed else got.kind()}, "
                                                           f"before the round trip {c['deg']} | history: {hist}")
            log.add("op", entry, "ok")
            mutated = True
            continue
        if k in ("lp_save_load", "sys_save_load"):
            # round trip of the libration point / of its system: every cheap observable of the reloaded object must equal the original's
            names = ("position", "energy", "jacobi", "eigenvalues", "linear_data", "is_stable", "gamma", "mu", "idx", "eigenvectors", "linear_modes")
            path = base.tmp_path(f"{k}_{len(hist)}_{j}.pkl")
            src = c["lp"] if k == "lp_save_load" else c["lp"].system
            out = attempt(lambda: src.save(path))
            if out.failed:
                raise Violation(f"C20/{k}/save-raised", f"{out.kind()}: {out.exc} | history: {hist}")
            out = attempt(lambda: type(src).load(path))
            try:
                os.remove(path)
            except OSError:
                pass
            if out.failed:
                raise Violation(f"C20/{k}/load-raised", f"{out.kind()}: {out.exc} | history: {hist}")
            lp2 = out.value if k == "lp_save_load" else attempt(lambda: out.value.get_libration_point(c["where"][1])).value
            if k == "sys_save_load" and (lp2 is None or float(out.value.mu) != float(c["lp"].system.mu)):
                raise Violation("C20/sys_save_load/roundtrip-mu", f"reloaded system has mu {getattr(out.value, 'mu', None)!r}, saved with {c['lp'].system.mu!r} | history: {hist}")
            if k == "sys_save_load" and float(out.value.distance) != float(c["lp"].system.distance):
                raise Violation("C20/sys_save_load/roundtrip-distance", f"reloaded system has distance {out.value.distance!r}, saved with {c['lp'].system.distance!r} | history: {hist}")
            for nm in names:
                a, b = attempt(lambda: _norm(getattr(c["lp"], nm))), attempt(lambda: _norm(getattr(lp2, nm)))
                if a.failed != b.failed or (not a.failed and not eq(a.value, b.value)):
                    raise Violation(f"C20/{k}/roundtrip-{nm}", f"{nm} of the reloaded object is {brief(b.value) if not b.failed else b.kind()}, of the original "
                                                               f"{brief(a.value) if not a.failed else a.kind()} | history: {hist}")
            log.add("op", entry, "ok")
            ctx.probe("reload_compared")
            continue
        # ------------------------------------------------------------ map operations
        if k in ("map_compute", "map_refetch", "map_points", "map_states", "map_set_strategy", "map_save_load"):
            if k == "map_refetch" or c["map"] is None:
                out = attempt(lambda: c["real"].poincare_map(ENERGY))
                if out.failed:
                    raise Violation("C20/map/poincare_map-raised", f"{out.kind()}: {out.exc} | history: {hist}")
                # the manifold hands out ONE map object per (degree, energy): its configuration is part of that object's state
                held = [mm for o in cms for mm in o.get("maps_seen", []) if mm["real"] is out.value]
                c["map"] = held[0] if held else {"real": out.value, "last": {}, "strategy": "axis_aligned"}
                if not held:
                    c.setdefault("maps_seen", []).append(c["map"])   # the model keeps every map object it has seen: their state outlives the handle
                if k == "map_refetch":
                    log.add("op", entry, "ok")
                    continue
            m = c["map"]
            if k == "map_set_strategy":
                st = STRATEGIES[op[1]]
                out = attempt(lambda: setattr(m["real"], "config", _mapconfig(st)))
                if out.failed:
                    raise Violation("C20/map/set-config-raised", f"{out.kind()}: {out.exc} | history: {hist}")
                if st != m["strategy"]:
                    m["strategy"] = st
                    m["last"] = {}          # stored sections belong to the previous configuration: unset or recomputed, never served
                    m["stale_ok"] = True
                log.add("op", entry, "ok")
                mutated = True
                continue
            if k == "map_save_load":
                from hiten.system.maps.center import CenterManifoldMap
                path = base.tmp_path(f"map_{len(hist)}_{j}.pkl")
                out = attempt(lambda: m["real"].save(path))
                if out.failed:
                    raise Violation("C20/map/save-raised", f"{out.kind()}: {out.exc} | history: {hist}")
                out = attempt(lambda: CenterManifoldMap.load(path))
                try:
                    os.remove(path)
                except OSError:
                    pass
                if out.failed:
                    raise Violation("C20/map/load-raised", f"{out.kind()}: {out.exc} | history: {hist}")
                ctx.probe("reload_then_continue")
                en = attempt(lambda: float(out.value.energy))
                if en.failed or en.value != ENERGY:
                    raise Violation("C20/map/roundtrip-energy", f"reloaded map has energy {en.value if not en.failed else en.kind()}, saved with {ENERGY} | history: {hist}")
                for sec, (oi, deg_then) in m["last"].items():
                    if deg_then != c["deg"]:
                        continue
                    before = attempt(lambda: np.asarray(m["real"].get_points(section_coord=sec), float))
                    after = attempt(lambda: np.asarray(out.value.get_points(section_coord=sec), float)) if out.value.has_section(sec) else None
                    if not before.failed and (after is None or after.failed or not eq(before.value, after.value)):
                        raise Violation("C20/map/roundtrip-section", f"the stored {sec} section is lost or changed by save/load | history: {hist}")
                log.add("op", entry, "ok")
                # continue the history on the reloaded map: it carries its own (unpickled) manifold, so it no longer follows this handle's degree
                c["map"] = {"real": out.value, "last": {s_: v for s_, v in m["last"].items() if v[1] == c["deg"]}, "strategy": m["strategy"],
                            "fixed_deg": m.get("fixed_deg") or c["deg"]}
                continue
            mdeg = m.get("fixed_deg") or c["deg"]
            cview = dict(c, deg=mdeg)
            if k == "map_compute":
                sec, oi = SECTIONS[op[1]], op[2]
                r_out = attempt(lambda: map_rows(m["real"].compute(section_coord=sec, options=_mapopts(oi))))
                t_out = twin_memo(("map", c["where"], mdeg, sec, oi, m["strategy"]), lambda: attempt(
                    lambda: map_rows(_twin_map(U, cview, m["strategy"]).compute(section_coord=sec, options=_mapopts(oi)))))
                log.add("op", entry, r_out.kind(), digest(r_out.value) if not r_out.failed else None)
                if r_out.failed != t_out.failed:
                    raise Violation("C20/map/outcome-compute", f"map.compute({sec}, {MAPOPTS[oi]}): {r_out.kind()} ({r_out.exc}) on the long-lived map, "
                                                               f"{t_out.kind()} on a fresh map of a fresh degree-{mdeg} manifold | history: {hist}")
                if not r_out.failed and not eq(r_out.value, t_out.value):
                    raise Violation("C20/map/value-compute", f"map.compute(section={sec}, n_iter={MAPOPTS[oi][0]}, dt={MAPOPTS[oi][1]}) on the long-lived map of a "
                                                             f"degree-{mdeg} manifold returned {len(r_out.value['states'])} rows (first {brief(r_out.value['states'][:1])}); "
                                                             f"a fresh map of a fresh manifold returns {len(t_out.value['states'])} rows "
                                                             f"(first {brief(t_out.value['states'][:1])}) | history: {hist}")
                m["last"][sec] = (oi, mdeg)
                ctx.probe("map_compared")
            else:  # map_points / map_states: stored result of the last compute for THAT section (two-sided)
                sec = SECTIONS[op[1]]
                if sec not in m["last"]:
                    continue  # reading would trigger a default-options computation (40 iterations): not explored
                oi, deg_then = m["last"][sec]
                col = (lambda a: a) if k == "map_points" else (lambda a: a)
                if k == "map_points":
                    r_out = attempt(lambda: np.asarray(m["real"].get_points(section_coord=sec), float))
                else:
                    r_out = attempt(lambda: np.asarray(m["real"].get_section(sec).states, float)[:, :4])
                if r_out.failed:
                    ctx.probe("map_points_unset")
                    continue
                t_out = twin_memo(("map", c["where"], mdeg, sec, oi, m["strategy"]), lambda: attempt(
                    lambda: map_rows(_twin_map(U, cview, m["strategy"]).compute(section_coord=sec, options=_mapopts(oi)))))
                got = r_out.value
                got = got[np.lexsort(tuple(got.T[::-1]))] if len(got) else got
                exp = t_out.value["points"] if k == "map_points" else t_out.value["states"]
                exp = exp[np.lexsort(tuple(exp.T[::-1]))] if len(exp) else exp
                if (t_out.failed or not eq(got, exp)) and deg_then != mdeg and known_active("C20-K2-stored-map-section-survives-degree-change"):
                    # K2: exactly the section computed at the earlier degree
                    old = twin_memo(("map", c["where"], deg_then, sec, oi, m["strategy"]), lambda: attempt(
                        lambda: map_rows(_twin_map(U, dict(c, deg=deg_then), m["strategy"]).compute(section_coord=sec, options=_mapopts(oi)))))
                    oldp = (old.value["points"] if k == "map_points" else old.value["states"]) if not old.failed else None
                    if oldp is not None and eq(got, oldp[np.lexsort(tuple(oldp.T[::-1]))] if len(oldp) else oldp):
                        ctx.note_known("C20-K2-stored-map-section-survives-degree-change")
                        continue
                if t_out.failed or not eq(got, exp):
                    raise Violation("C20/map/stored-points", f"map.get_points({sec}) holds {len(got)} points that are not the result of the last compute "
                                                             f"(n_iter={MAPOPTS[oi][0]}, dt={MAPOPTS[oi][1]}) for the manifold's current degree {mdeg} "
                                                             f"(computed when the degree was {deg_then}) | history: {hist}")
                log.add("op", entry, "stored", digest(got))
                ctx.probe("stored_result_compared")
            continue
        # ------------------------------------------------------------ ordinary operations against a fresh twin
        deg = c["deg"]

        def twin_apply():
            tlp = _lp(U, "sys_twin", c["where"])
            tcm = _cm(tlp, deg)
            out = attempt(lambda: apply_cm(tcm, tlp, op))
            return out, int(tcm.degree)

        t_out, t_deg = twin_memo(("cm-op", c["where"], deg, op), twin_apply)
        r_out = attempt(lambda: apply_cm(c["real"], c["lp"], op))
        log.add("op", entry, r_out.kind(), digest(r_out.value) if not r_out.failed else None)
        if r_out.failed != t_out.failed:
            raise Violation(f"C20/cm/outcome-{k}", f"{op}: {r_out.kind()} ({r_out.exc}) on the long-lived object, {t_out.kind()} ({t_out.exc}) on a fresh "
                                                   f"degree-{deg} twin | history: {hist}")
        if r_out.failed:
            ctx.fault("op_failed_" + type(r_out.exc).__name__)
            ctx.probe("failed_op_then_continue")
        elif not eq(r_out.value, t_out.value):
            raise Violation(f"C20/cm/value-{k}", f"{op} on the long-lived degree-{deg} manifold returned {_hbrief(r_out.value)}; a fresh twin returns "
                                                 f"{_hbrief(t_out.value)} | history: {hist}")
        # read back the logical state
        got = attempt(lambda: int(c["real"].degree))
        if got.failed or got.value != t_deg:
            raise Violation(f"C20/cm/degree-after-{k}", f"after {op} the long-lived manifold has degree {got.value if not got.failed else got.kind()}, a fresh "
                                                        f"degree-{deg} twin has degree {t_deg} | history: {hist}")
        if t_deg != deg:
            c["deg"] = t_deg
            # aliases: handles that are the same logical object change together
            for other in cms:
                if other is not c and other["real"] is c["real"]:
                    other["deg"] = t_deg
        if k in MUTATORS or r_out.failed:
            mutated = True
    ctx.sig_parts = [[(c["via_lp"], c["where"]) for c in cms], [L["where"] for L in lps], hist]
    ctx.sample = {"machine": "cm", "libration_points": [list(L["where"]) for L in lps],
                  "objects": [f"{x['where'][0]} L{x['where'][1]} manifold via {'lp.get_center_manifold' if x['via_lp'] else 'constructor'}" for x in cms],
                  "history": [list(h) for h in hist]}
    ctx.steps += len(hist)


def _hbrief(v):
    if isinstance(v, list) and v and isinstance(v[0], dict) and "G" in v[0]:
        return f"{len(v)} generating functions, coefficient digests {[digest(g['G'])[:8] for g in v]}"
    if isinstance(v, dict) and v and all(isinstance(x, dict) and "blocks" in x for x in v.values()):
        return "{" + ", ".join(f"{k}: {_hbrief(x)}" for k, x in v.items()) + "}"
    if isinstance(v, dict) and "blocks" in v:
        nz = [int(np.count_nonzero(b)) for b in v["blocks"]]
        return f"Hamiltonian(degree={v['degree']}, blocks={len(v['blocks'])}, nonzeros per block={nz}, digest={digest(v['blocks'])[:8]})"
    return brief(v)


def enumeration(max_len: int):
    import itertools
    idx = [ALPHABET.index(op) + 1 for op in REDUCED]
    # prefix: machine=cm (1), lp[0].point=L1 (0), no second libration point (0), n_objects=1 (0), degree index 0 (=4), via_lp in {0,1}, not map-focused (0)
    for via in (0, 1):
        for L in range(1, max_len + 1):
            for seq in itertools.product(idx, repeat=L):
                yield [1, 0, 0, 0, 0, via, 0] + list(seq) + [0]
