"""C20 manifold machine: an orbit and its invariant manifold; the orbit changes underneath the manifold."""
from __future__ import annotations

import numpy as np

from checks import c20 as base
from checks.c20 import attempt, brief, digest, eq, twin_memo
from simkit.run import RunCtx, Violation

M: dict = {}
VARIANTS = [{"step": 0.5, "integration_fraction": 0.2, "displacement": 1e-6, "method": "fixed", "order": 4, "dt": 1e-2},
            {"step": 0.34, "integration_fraction": 0.2, "displacement": 1e-6, "method": "fixed", "order": 4, "dt": 1e-2}]
KINDS = [(True, "positive"), (False, "positive"), (True, "negative")]

# m_* act on the run's manifold A; b_* on a second manifold B of the same orbit (the branch of opposite stability),
# created at its first use: two objects made from one parent must not share results
ALPHABET = [("o_set_period", "x0.9"), ("o_set_period", "x1.1"), ("o_set_period", "orig"), ("o_correct",),
            ("m_compute", 0), ("m_compute", 1), ("m_trajectories",), ("m_refetch",), ("o_read", "monodromy"), ("m_save_load",),
            ("b_compute", 0), ("b_compute", 1), ("b_trajectories",)]
WEIGHTS = [1.0, 0.6, 0.8, 0.8, 2.0, 1.5, 1.5, 0.5, 0.4, 0.5, 1.2, 0.6, 0.6]
REDUCED = [("o_set_period", "x0.9"), ("o_correct",), ("m_compute", 0), ("m_compute", 1), ("m_trajectories",), ("m_refetch",), ("b_compute", 0)]
CORE3 = [("m_compute", 0), ("m_compute", 1), ("b_compute", 0), ("b_trajectories",)]
SIBLING = {(True, "positive"): (False, "positive"), (False, "positive"): (True, "positive"), (True, "negative"): (False, "negative")}


def warmup(U, tier):
    from hiten.system.libration.collinear import L1Point
    from hiten.system.orbits.halo import HaloOrbit
    lp = L1Point(U["sys_twin"]["em"])
    g = lp.create_orbit("halo", amplitude_z=0.2, zenith="southern")
    g.correct()
    M["x"], M["T"] = np.array(g.initial_state, float), float(g.period)
    M["cls"] = HaloOrbit
    for uni in ("sys_real", "sys_twin"):
        o = HaloOrbit(L1Point(U[uni]["em"]), initial_state=M["x"].copy())
        o.period = M["T"]
        m = o.manifold(stable=True, direction="positive")
        m.compute(show_progress=False, **VARIANTS[0])
        o.correct()


def _orbit(U, uni, x, T):
    from hiten.system.libration.collinear import L1Point
    o = M["cls"](L1Point(U[uni]["em"]), initial_state=np.array(x, float))
    if T is not None:
        o.period = T
    return o


def _result(m):
    tr = m.trajectories
    if tr is None:
        return None
    return {"n": len(tr), "first": [np.array(t.states[0]) for t in tr], "last": [np.array(t.states[-1]) for t in tr],
            "tend": [float(t.times[-1]) for t in tr]}


def teq(a, b):
    return eq(a, b, rtol=1e-12, atol=1e-13)


def run_history(ctx: RunCtx, U) -> None:
    ds, log = ctx.ds, ctx.log
    stable, direction = KINDS[ds.choose(len(KINDS), "manifold.kind")]
    x, T = M["x"].copy(), M["T"]
    orbit = _orbit(U, "sys_real", x, T)
    man = orbit.manifold(stable=stable, direction=direction)
    last = None                 # (variant, x digest, T) of the last compute on `man`
    other = {"man": None, "last": None}     # the sibling manifold B and its last compute
    kind_a, kind_b = (stable, direction), SIBLING[(stable, direction)]
    hist: list = []
    mutated = False
    max_len = 8 if ctx.tier == "quick" else 16
    log.add("objects", stable, direction)

    def fresh_result(vi, x, T, kind=None):
        st_, dir_ = kind or kind_a

        def f():
            tw = _orbit(U, "sys_twin", x, T)
            tm = tw.manifold(stable=st_, direction=dir_)
            return attempt(lambda: (tm.compute(show_progress=False, **VARIANTS[vi]), _result(tm))[1])
        return twin_memo(("manifold", st_, dir_, vi, x, T), f)

    while len(hist) < max_len:
        w = [0.08 if hist else 0.0] + WEIGHTS
        kk = ds.choose(len(ALPHABET) + 1, f"op[{len(hist)}]", w)
        if kk == 0:
            break
        op = ALPHABET[kk - 1]
        hist.append(tuple(op))
        k = op[0]
        on_b = k.startswith("b_")
        if on_b:
            # the same operations on the sibling: swap the handles in, run the m_ branch, swap back
            if other["man"] is None:
                other["man"] = orbit.manifold(stable=kind_b[0], direction=kind_b[1])
            man, other["man"] = other["man"], man
            last, other["last"] = other["last"], last
            kind_a, kind_b = kind_b, kind_a
            k = "m_" + k[2:]
            ctx.probe("sibling_manifold_ops")
        if mutated and k.startswith("m_"):
            ctx.nontrivial = True
            ctx.probe("reads_after_mutation")
        if k == "o_set_period":
            v = {"x0.9": (T or M["T"]) * 0.9, "x1.1": (T or M["T"]) * 1.1, "orig": M["T"]}[op[1]]
            orbit.period = v
            T = v
            mutated = True
            log.add("op", op, "ok")
        elif k == "o_correct":
            t_out = twin_memo(("manifold-correct", x, T), lambda: _twin_correct(U, x, T))
            r_out = attempt(lambda: orbit.correct())
            if r_out.failed != t_out[0].failed:
                raise Violation("C20/manifold/outcome-correct", f"orbit.correct(): {r_out.kind()} on the long-lived orbit, {t_out[0].kind()} on a fresh twin | history: {hist}")
            x, T = t_out[1], t_out[2]
            if not eq(np.array(orbit.initial_state), x) or not eq(orbit.period, T):
                raise Violation("C20/manifold/orbit-state-after-correct", f"after correct(): state {brief(np.array(orbit.initial_state))}, period {orbit.period}; fresh twin "
                                                                         f"{brief(x)}, {T} | history: {hist}")
            mutated = True
            log.add("op", op, r_out.kind())
        elif k == "o_read":
            r_out = attempt(lambda: np.array(orbit.monodromy))
            t_out = twin_memo(("manifold-mono", x, T), lambda: attempt(lambda: np.array(_orbit(U, "sys_twin", x, T).monodromy)))
            if r_out.failed != t_out.failed or (not r_out.failed and not eq(r_out.value, t_out.value)):
                raise Violation("C20/manifold/orbit-monodromy", f"orbit.monodromy differs from a fresh twin at x={brief(x)}, T={T} | history: {hist}")
            log.add("op", op, r_out.kind())
        elif k == "m_save_load":
            import os
            before = attempt(lambda: _result(man))
            path = base.tmp_path(f"dep_{len(hist)}.pkl")
            out = attempt(lambda: man.save(path))
            if out.failed:
                raise Violation("C20/manifold/save-raised", f"save raised {out.kind()}: {out.exc} | history: {hist}")
            out = attempt(lambda: type(man).load(path))
            try:
                os.remove(path)
            except OSError:
                pass
            if out.failed:
                raise Violation("C20/manifold/load-raised", f"load raised {out.kind()}: {out.exc} | history: {hist}")
            after = attempt(lambda: _result(out.value))
            log.add("op", op, "ok")
            ctx.probe("reload_then_continue")
            ob = attempt(lambda: (np.array(out.value.generating_orbit.initial_state, float), out.value.generating_orbit.period))
            if ob.failed or not eq(ob.value[0], x) or not eq(ob.value[1], T):
                raise Violation("C20/manifold/roundtrip-orbit", f"after save/load the object's orbit has state/period {ob.value if not ob.failed else ob.kind()}, before the round trip "
                                                              f"{brief(x)}, {T} | history: {hist}")
            if not before.failed and before.value is not None and last is not None and eq(last[1], x) and eq(last[2], T):
                if after.failed or after.value is None or not teq(after.value, before.value):
                    raise Violation("C20/manifold/roundtrip-result", f"the stored result of the last compute is lost or changed by save/load "
                                                                   f"({'unset' if (after.failed or after.value is None) else 'different'} after the round trip) | history: {hist}")
            break  # the reloaded object carries its own unpickled orbit and System: continuing would recompile every integrator
        elif k == "m_refetch":
            man = orbit.manifold(stable=stable, direction=direction)
            last = None
            log.add("op", op, "ok")
        elif k == "m_compute":
            vi = op[1]
            r_out = attempt(lambda: (man.compute(show_progress=False, **VARIANTS[vi]), _result(man))[1])
            t_out = fresh_result(vi, x, T)
            log.add("op", op, r_out.kind(), digest(r_out.value) if not r_out.failed else None)
            if r_out.failed != t_out.failed:
                raise Violation("C20/manifold/outcome-compute", f"manifold.compute(variant {vi}): {r_out.kind()} ({r_out.exc}) on the long-lived manifold, {t_out.kind()} "
                                                                f"on a fresh manifold of a fresh orbit in the same state | history: {hist}")
            if not r_out.failed and not teq(r_out.value, t_out.value):
                raise Violation("C20/manifold/value-compute", f"manifold.compute(step={VARIANTS[vi]['step']}) on the long-lived manifold (orbit period {T}) gave "
                                                              f"{r_out.value['n']} trajectories, first seed {brief(r_out.value['first'][0]) if r_out.value['n'] else None}; "
                                                              f"a fresh manifold of a fresh orbit in the same state gives {t_out.value['n']}, first seed "
                                                              f"{brief(t_out.value['first'][0]) if t_out.value['n'] else None} | history: {hist}")
            last = (vi, x.copy(), T)
            ctx.probe("manifold_compared")
        elif k == "m_trajectories":
            r_out = attempt(lambda: _result(man))
            if r_out.failed or r_out.value is None:
                ctx.probe("manifold_result_unset")
                log.add("op", op, "unset")
            elif last is None:
                raise Violation("C20/manifold/stored-result", f"manifold.trajectories holds {r_out.value['n']} trajectories although this manifold object has not computed anything | history: {hist}")
            else:
                vi, xl, Tl = last
                # two-sided: the stored result must be the last compute's result at the orbit's CURRENT state
                t_out = fresh_result(vi, x, T)
                if t_out.failed or not teq(r_out.value, t_out.value):
                    raise Violation("C20/manifold/stored-result", f"manifold.trajectories is not the result of the last compute (variant {vi}) for the orbit's current state "
                                                                  f"(period {T}; computed when the period was {Tl}) | history: {hist}")
                log.add("op", op, "stored", digest(r_out.value))
                ctx.probe("stored_result_compared")
        if on_b:
            man, other["man"] = other["man"], man
            last, other["last"] = other["last"], last
            kind_a, kind_b = kind_b, kind_a
    ctx.sig_parts = [stable, direction, hist]
    ctx.sample = {"machine": "manifold", "objects": [f"halo orbit + {'stable' if stable else 'unstable'}/{direction} manifold" + (" + sibling branch" if other["man"] is not None else "")], "history": [list(h) for h in hist]}
    ctx.steps += len(hist)


def _twin_correct(U, x, T):
    tw = _orbit(U, "sys_twin", x, T)
    out = attempt(lambda: tw.correct())
    return out, np.array(tw.initial_state, float), tw.period


def enumeration(max_len: int):
    import itertools
    if max_len < 3:
        yield from core_enumeration()
    idx = [ALPHABET.index(op) + 1 for op in REDUCED]
    for L in range(1, max_len + 1):
        for seq in itertools.product(idx, repeat=L):
            yield [2, 0] + list(seq) + [0]   # machine=manifold (2), kind 0


def core_enumeration():
    """All length-3 histories over the two-manifold core alphabet (compute on A, on its sibling B, read B)."""
    import itertools
    idx = [ALPHABET.index(op) + 1 for op in CORE3]
    for seq in itertools.product(idx, repeat=3):
        if any(ALPHABET[i - 1][0].startswith("b_") for i in seq):
            yield [2, 0] + list(seq) + [0]
