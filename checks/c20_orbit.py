"""C20 orbit machine: histories over PeriodicOrbit objects against fresh twins."""
from __future__ import annotations

import os

import numpy as np

from checks import c20 as base
from checks.c20 import Outcome, attempt, brief, digest, eq, known_active, twin_memo
from simkit.decisions import fhex
from simkit.run import RunCtx, Violation

SPECS = [
    {"name": "em-L1-halo-S", "sys": "em", "point": 1, "fam": "halo", "kwargs": {"amplitude_z": 0.2, "zenith": "southern"}},
    {"name": "em-L1-lyapunov", "sys": "em", "point": 1, "fam": "lyapunov", "kwargs": {"amplitude_x": 0.05}},
    {"name": "em-L2-halo-N", "sys": "em", "point": 2, "fam": "halo", "kwargs": {"amplitude_z": 0.15, "zenith": "northern"}},
    {"name": "em-L1-vertical", "sys": "em", "point": 1, "fam": "vertical", "kwargs": {"amplitude_z": 0.1}},
    {"name": "se-L1-halo-N", "sys": "se", "point": 1, "fam": "halo", "kwargs": {"amplitude_z": 0.1, "zenith": "northern"}},
]
ACTIVE: list[int] = []

PROPS = [(40, "fixed", 4), (60, "fixed", 4), (40, "adaptive", 8), (40, "fixed", 8)]
SYSPROPS = [(1, "adaptive", 8), (-1, "adaptive", 8), (1, "fixed", 4), (-1, "fixed", 4)]
TOLS = [1e-10, 1e-6]
ATTEMPTS = [50, 1]
READS = ["period", "initial_state", "energy", "monodromy", "stability_indices", "eigenvalues", "is_stable", "jacobi", "amplitude", "corr_tol"]

# the alphabet: fully specified operations; index 0 of every choice is STOP
ALPHABET = (
    [("set_period", t) for t in ("x1.1", "none", "half", "abs", "same")]
    + [("correct", ti, ai) for ti in range(2) for ai in range(2)]
    + [("set_opts", 0), ("set_opts", 1), ("correct_default",)]
    + [("read", r) for r in READS]
    + [("propagate", i) for i in range(len(PROPS))]
    + [("trajectory",), ("bad_period",), ("set_amp", 0), ("save_load",), ("load_inplace",), ("save_fault", "enospc"), ("save_fault", "eio"),
       ("save_torn_load",), ("generate", 0), ("generate", 1)]
    + [("sys_propagate", i) for i in range(len(SYSPROPS))]
    + [("set_corr_config", 0), ("set_corr_config", 1)]
    + [("load_inplace_other", 0), ("load_inplace_other", 1)]
    + [("set_cont_config", 0), ("set_cont_config", 1)]
)
WEIGHTS = {"set_period": 1.2, "correct": 1.0, "set_opts": 0.5, "correct_default": 1.0, "read": 1.0, "propagate": 1.0, "trajectory": 3.0,
           "bad_period": 1.0, "set_amp": 0.7, "save_load": 0.25, "load_inplace": 0.15, "save_fault": 0.5, "save_torn_load": 0.3, "generate": 0.35, "sys_propagate": 0.9, "set_corr_config": 0.8, "load_inplace_other": 0.4, "set_cont_config": 0.5}
REDUCED = [("set_period", "x1.1"), ("set_period", "none"), ("correct", 0, 0), ("correct", 1, 1), ("set_opts", 1), ("set_corr_config", 1), ("correct_default",),
           ("read", "period"), ("read", "monodromy"), ("read", "stability_indices"), ("propagate", 0), ("propagate", 1), ("propagate", 3), ("trajectory",),
           ("bad_period",), ("save_fault", "enospc")]
MUTATORS = {"set_period", "correct", "set_opts", "correct_default", "set_amp", "save_load", "load_inplace", "set_corr_config", "load_inplace_other", "set_cont_config"}
INTEGRATING = {"correct", "correct_default", "propagate", "generate", "sys_propagate"}
INTEGRATING_READS = {"monodromy", "stability_indices", "eigenvalues", "is_stable"}


def _lp_cls(point):
    from hiten.system.libration.collinear import L1Point, L2Point
    return {1: L1Point, 2: L2Point}[point]


def _orbit_cls(fam):
    from hiten.system.orbits.halo import HaloOrbit
    from hiten.system.orbits.lyapunov import LyapunovOrbit
    from hiten.system.orbits.vertical import VerticalOrbit
    return {"halo": HaloOrbit, "lyapunov": LyapunovOrbit, "vertical": VerticalOrbit}[fam]


def _alt_config(o, variant):
    """The family's default correction configuration (variant 0) or the same with other control indices (variant 1):
    another, equally legitimate, differential-correction problem for the same orbit."""
    import dataclasses
    from hiten.algorithms.types.states import SynodicState as S
    base_cfg = type(o)(o.libration_point, initial_state=np.array(o.initial_state, float)).correction_config   # a fresh object's default
    if variant == 0:
        return base_cfg
    alt = {"halo": (S.Z, S.VY), "lyapunov": (S.X, S.VZ), "vertical": (S.X, S.VY)}[o.family if o.family in ("halo", "lyapunov") else "vertical"]
    return dataclasses.replace(base_cfg, control_indices=alt)


def _alt_cont_config(o, variant):
    """The family's default continuation configuration (variant 0) or the same with the other stepper (variant 1)."""
    import dataclasses
    base_cfg = type(o)(o.libration_point, initial_state=np.array(o.initial_state, float)).continuation_config   # a fresh object's default
    if variant == 0:
        return base_cfg
    return dataclasses.replace(base_cfg, stepper="secant" if base_cfg.stepper == "natural" else "natural")


def _merge_opts(o, tol, ma):
    return o.correction_options.merge(**{"base.convergence.tol": tol, "base.convergence.max_attempts": ma})


def warmup(U, tier):
    ACTIVE[:] = [0, 1, 2, 3, 4]   # the Sun-Earth spec gives two systems (two mass ratios) inside one process also in the quick tier
    for i in ACTIVE:
        s = SPECS[i]
        lp = _lp_cls(s["point"])(U["sys_twin"][s["sys"]])
        g = lp.create_orbit(s["fam"], **s["kwargs"])
        s["x0"] = np.array(g.initial_state, float)
        s["cls"] = _orbit_cls(s["fam"])
        g.correct()
        s["T0"] = float(g.period)
        s["xs"] = np.array(g.initial_state, float)
    # JIT warm-up on both universes so that forked workers inherit compiled integrators
    for uni in ("sys_real", "sys_twin"):
        for sysname in sorted({SPECS[i]["sys"] for i in ACTIVE}):
            i = next(k for k in ACTIVE if SPECS[k]["sys"] == sysname)
            s = SPECS[i]
            o = s["cls"](_lp_cls(s["point"])(U[uni][sysname]), initial_state=s["x0"].copy())
            o.correct()
            for (st, m, od) in PROPS:
                o.propagate(steps=st, method=m, order=od)
            o.monodromy
            o.stability_indices
            for (fwd, m, od) in SYSPROPS:
                o.system.propagate(s["x0"].copy(), tf=0.8, steps=60, method=m, order=od, forward=fwd)


# --------------------------------------------------------------------------- model / twin
def new_model(spec_i, corrected: bool = False):
    s = SPECS[spec_i]
    if corrected:   # an orbit object constructed from a converged state, with its period set
        return {"spec": spec_i, "x": s["xs"].copy(), "T": s["T0"], "amp": None, "opts": None, "lastprop": None, "cfgvar": 0, "ccfg": 0}
    return {"spec": spec_i, "x": s["x0"].copy(), "T": None, "amp": None, "opts": None, "lastprop": None, "cfgvar": 0, "ccfg": 0}


def build(model, lp):
    """Construct a fresh object at the model's logical state on libration point `lp`."""
    s = SPECS[model["spec"]]
    o = s["cls"](lp, initial_state=np.array(model["x"], float))
    if model["T"] is not None:
        o.period = model["T"]
    if model["amp"] is not None:
        o.amplitude = model["amp"]
    if model["opts"] is not None:
        o.correction_options = _merge_opts(o, *model["opts"])
    if model.get("cfgvar"):
        o.correction_config = _alt_config(o, model["cfgvar"])
    if model.get("ccfg"):
        o.continuation_config = _alt_cont_config(o, model["ccfg"])
    return o


def twin_of(model, U):
    s = SPECS[model["spec"]]
    return build(model, _lp_cls(s["point"])(U["sys_twin"][s["sys"]]))


def readback(o):
    return {"x": np.array(o.initial_state, float), "T": o.period}


def period_value(model, tag):
    T = model["T"]
    T0 = SPECS[model["spec"]]["T0"]
    return {"none": None, "x1.1": (T if T else T0) * 1.1, "half": (T if T else T0) / 2.0, "abs": round(T0 * 1.05, 3), "same": T}[tag]


def sorted_c(v):
    a = np.asarray(v, dtype=complex).ravel()
    return a[np.lexsort((np.round(a.imag, 9), np.round(a.real, 9)))]


def read(o, name):
    if name == "jacobi":
        return o.jacobi
    if name == "corr_tol":
        return float(o.correction_options.base.convergence.tol)
    v = getattr(o, name)
    if name in ("stability_indices", "eigenvalues"):
        return sorted_c(v)
    if name in ("monodromy", "initial_state"):
        return np.array(v)
    return v


def apply(o, op, model):
    """Apply one alphabet operation to an orbit object (the long-lived one or a twin); returns a comparable value."""
    k = op[0]
    if k == "set_period":
        o.period = period_value(model, op[1])
        return None
    if k == "bad_period":
        o.period = -1.0
        return None
    if k == "correct":
        r = o.correct(_merge_opts(o, TOLS[op[1]], ATTEMPTS[op[2]]))
        return {"x": np.array(r.x_corrected, float), "res": float(r.residual_norm), "half": float(r.half_period), "conv": bool(r.converged),
                "below_tol": bool(r.residual_norm < TOLS[op[1]])}
    if k == "correct_default":
        r = o.correct()
        tol = o.correction_options.base.convergence.tol
        return {"x": np.array(r.x_corrected, float), "res": float(r.residual_norm), "half": float(r.half_period), "conv": bool(r.converged),
                "below_tol": bool(r.residual_norm < tol)}
    if k == "set_opts":
        o.correction_options = _merge_opts(o, TOLS[op[1]], ATTEMPTS[0])
        return None
    if k == "sys_propagate":
        fwd, m, od = SYSPROPS[op[1]]
        tr = o.system.propagate(np.array(model["x"], float), tf=0.8, steps=60, method=m, order=od, forward=fwd)
        return {"states": np.array(tr.states), "times": np.array(tr.times)}
    if k == "generate":
        from hiten.algorithms.continuation.options import OrbitContinuationOptions
        idx = int(o.continuation_config.state_indices[0])
        z = float(o.initial_state[idx])
        step = [0.002, -0.001][op[1]]
        extra = o.correction_options.merge(**{"base.convergence.max_attempts": 12})
        res = o.generate(OrbitContinuationOptions(target=([z - 1.0], [z + 1.0]), step=(step,), max_members=3, max_retries_per_step=1, extra_params=extra))
        return {"n": len(res.family), "states": [np.array(m.initial_state, float) for m in res.family], "periods": [m.period for m in res.family],
                "accepted": int(res.accepted_count), "rejected": int(res.rejected_count)}
    if k == "set_amp":
        o.amplitude = [0.123][op[1]]
        return None
    if k == "set_corr_config":
        o.correction_config = _alt_config(o, op[1])
        return None
    if k == "set_cont_config":
        o.continuation_config = _alt_cont_config(o, op[1])
        return None
    if k == "read":
        return read(o, op[1])
    if k == "propagate":
        st, m, od = PROPS[op[1]]
        tr = o.propagate(steps=st, method=m, order=od)
        return {"states": np.array(tr.states), "times": np.array(tr.times)}
    raise AssertionError(op)


def model_after(model, op, rb):
    """New model state from the twin's read-back after a mutator."""
    new = dict(model)
    changed = (not eq(rb["x"], model["x"])) or not eq(rb["T"], model["T"])
    new["x"], new["T"] = rb["x"], rb["T"]
    if op[0] == "set_amp":
        new["amp"] = [0.123][op[1]]
    if op[0] == "set_opts":
        new["opts"] = (TOLS[op[1]], ATTEMPTS[0])
    if op[0] == "set_corr_config":
        new["cfgvar"] = op[1]
    if op[0] == "set_cont_config":
        new["ccfg"] = op[1]
    if changed:
        new["lastprop"] = None
    return new


# --------------------------------------------------------------------------- the history
def diverge(ctx, vclass, msg, hist, known_id=None):
    if known_id and known_active(known_id):
        ctx.note_known(known_id)
        return True
    raise Violation(vclass, msg + f" | history: {hist}")


def run_history(ctx: RunCtx, U) -> None:
    ds, log = ctx.ds, ctx.log
    nobj = 1 + ds.choose(2, "orbit.n_objects", (0.7, 0.3))
    objs = []
    for j in range(nobj):
        si = ACTIVE[ds.choose(len(ACTIVE), f"orbit[{j}].spec")]
        share = j > 0 and ds.flag(f"orbit[{j}].share_lp", 0.6) and SPECS[objs[0]["model"]["spec"]]["sys"] == SPECS[si]["sys"] \
            and SPECS[objs[0]["model"]["spec"]]["point"] == SPECS[si]["point"]
        s = SPECS[si]
        lp = objs[0]["lp"] if share else _lp_cls(s["point"])(U["sys_real"][s["sys"]])
        model = new_model(si, corrected=bool(ds.choose(2, f"orbit[{j}].starts_corrected", (0.6, 0.4))))
        objs.append({"lp": lp, "model": model, "real": build(model, lp), "reloaded": False, "post_reload_integrations": 0, "shared": share})
    log.add("objects", [(SPECS[o["model"]["spec"]]["name"], o["shared"]) for o in objs])
    hist: list = []
    weights = [0.0] + [WEIGHTS[a[0]] / sum(1 for b in ALPHABET if b[0] == a[0]) for a in ALPHABET]
    max_len = 14 if ctx.tier == "quick" else 30
    mutated_since_read = False
    while len(hist) < max_len:
        # 0 = stop; in search mode stopping gets weight so that lengths vary
        w = list(weights)
        w[0] = 0.08 if hist else 0.0
        k = ds.choose(len(ALPHABET) + 1, f"op[{len(hist)}]", w)
        if k == 0:
            break
        op = ALPHABET[k - 1]
        j = ds.choose(nobj, f"op[{len(hist)}].object") if nobj > 1 else 0
        ob = objs[j]
        step(ctx, U, ob, j, op, hist)
    ctx.sig_parts = [[SPECS[o["model"]["spec"]]["name"] for o in objs], [o["shared"] for o in objs], hist]
    ctx.sample = {"machine": "orbit", "objects": [SPECS[o["model"]["spec"]]["name"] + ("(shared lp)" if o["shared"] else "") for o in objs],
                  "history": [list(h) for h in hist]}
    ctx.steps += len(hist)


def step(ctx, U, ob, j, op, hist):
    log = ctx.log
    model, real = ob["model"], ob["real"]
    k = op[0]
    entry = (j,) + tuple(op)
    # ration integrations after a reload in the quick tier (every one recompiles for the unpickled System)
    integrating = k in INTEGRATING or (k == "read" and op[1] in INTEGRATING_READS) or k == "trajectory"
    if ob["reloaded"] and integrating and k != "trajectory":
        if ctx.tier == "quick" and ob["post_reload_integrations"] >= 1:
            ctx.probe("skipped_integration_after_reload")
            return
        ob["post_reload_integrations"] += 1
    if ob.get("no_more_persistence") and k in ("save_load", "load_inplace", "save_torn_load", "load_inplace_other", "save_fault"):
        return   # after a foreign file was loaded in place the history continues with reads and computations only
    hist.append(entry)
    if ctx.probes.get("_mutated", 0) and k in ("read", "propagate", "trajectory", "correct", "correct_default"):
        ctx.nontrivial = True
        ctx.probe("reads_after_mutation")
    # ---------------- persistence and fault operations act on the real object only
    if k == "load_inplace_other":
        # a file written by ANOTHER, fresh orbit of the same family (variant 0: analytic guess, no period; variant 1: converged state
        # with its period) is loaded into the long-lived object: afterwards the object is, logically, that other orbit
        src_model = new_model(model["spec"], corrected=bool(op[1]))
        path = base.tmp_path(f"orbit_other_{len(hist)}_{j}.pkl")
        out = attempt(lambda: build(src_model, ob["lp"]).save(path))
        if out.failed:
            raise Violation("C20/orbit/save-raised", f"save of a fresh orbit raised {out.kind()}: {out.exc} | history: {hist}")
        out = attempt(lambda: real.load_inplace(path))
        try:
            os.remove(path)
        except OSError:
            pass
        if out.failed:
            raise Violation("C20/orbit/load_inplace-raised", f"load_inplace raised {out.kind()}: {out.exc} | history: {hist}")
        rb = readback(real)
        for f in ("x", "T"):
            if not eq(rb[f], src_model[f]):
                raise Violation(f"C20/orbit/load_inplace-{f}", f"after load_inplace of another orbit's file: {f} = {brief(rb[f])}, the file's orbit had {brief(src_model[f])} | history: {hist}")
        ob["model"] = dict(src_model)
        ob["reloaded"], ob["no_more_persistence"] = True, True
        ob["restored"] = {"T": rb["T"], "traj": None, "earlier_traj": []}
        log.add("op", entry, "ok")
        ctx.probes["_mutated"] = 1
        ctx.probe("load_inplace_other")
        return
    if k in ("save_load", "load_inplace"):
        path = base.tmp_path(f"orbit_{len(hist)}_{j}.pkl")
        out = attempt(lambda: real.save(path))
        if out.failed:
            raise Violation("C20/orbit/save-raised", f"save raised {out.kind()}: {out.exc} | history: {hist}")
        if k == "save_load":
            out = attempt(lambda: type(real).load(path))
            if out.failed:
                raise Violation("C20/orbit/load-raised", f"load raised {out.kind()}: {out.exc} | history: {hist}")
            ob["real"] = real = out.value
            ob["reloaded"] = True
            ctx.probe("reload_then_continue")
        else:
            out = attempt(lambda: real.load_inplace(path))
            if out.failed:
                raise Violation("C20/orbit/load_inplace-raised", f"load_inplace raised {out.kind()}: {out.exc} | history: {hist}")
            ob["reloaded"] = True
            ctx.probe("load_inplace")
        try:
            os.remove(path)
        except OSError:
            pass
        rb = readback(real)
        prev = ob.get("restored")          # what the previous round trip restored, if any
        tr_now = attempt(lambda: real.trajectory)
        tr_dig = None if tr_now.failed else digest(np.array(tr_now.value.states))
        for f in ("x", "T"):
            if not eq(rb[f], model[f]):
                # K1: a value cleared (set to None) after an earlier reload is resurrected by the next save/load
                if f == "T" and prev is not None and model["T"] is None and eq(rb["T"], prev["T"]) \
                        and known_active("C20-K1-second-roundtrip-resurrects-cleared-values"):
                    ctx.note_known("C20-K1-second-roundtrip-resurrects-cleared-values")
                    model["T"] = rb["T"]
                    model["lastprop"] = None
                    continue
                raise Violation(f"C20/orbit/roundtrip-{f}", f"after {k}: {f} = {brief(rb[f])}, before the round trip {brief(model[f])} | history: {hist}")
        ob["restored"] = {"T": rb["T"], "traj": tr_dig, "earlier_traj": ([] if prev is None else prev["earlier_traj"] + [prev["traj"]])}
        log.add("op", entry, "ok")
        ctx.probes["_mutated"] = 1
        return
    if k == "save_fault":
        import hiten.utils.io.orbits as ioo
        path = base.tmp_path(f"orbit_fault_{len(hist)}_{j}.pkl")
        limit = [0, 17, 300][ctx.ds.choose(3, "save_fault.after_bytes")]
        ioo.open = base.faulty_open(limit, op[1])
        try:
            out = attempt(lambda: real.save(path))
        finally:
            del ioo.open
        ctx.fault("save_" + op[1])
        if not out.failed:
            raise Violation("C20/orbit/save-fault-swallowed", f"save returned normally although the file write failed with {op[1]} after {limit} bytes | history: {hist}")
        try:
            os.remove(path)
        except OSError:
            pass
        rb = readback(real)
        for f in ("x", "T"):
            if not eq(rb[f], model[f]):
                raise Violation(f"C20/orbit/after-failed-save-{f}", f"after a failed save: {f} = {brief(rb[f])}, expected {brief(model[f])} | history: {hist}")
        log.add("op", entry, "save-failed-as-expected")
        ctx.probes["_mutated"] = 1
        ctx.probe("failed_op_then_continue")
        return
    if k == "save_torn_load":
        import hiten.utils.io.orbits as ioo
        path = base.tmp_path(f"orbit_torn_{len(hist)}_{j}.pkl")
        limit = [40, 400, 3][ctx.ds.choose(3, "save_torn.after_bytes")]
        ioo.open = base.faulty_open(limit, "short")
        try:
            attempt(lambda: real.save(path))
        finally:
            del ioo.open
        ctx.fault("save_torn")
        out = attempt(lambda: type(real).load(path))
        try:
            os.remove(path)
        except OSError:
            pass
        # non-gating probe: a torn file is not a round trip
        if out.failed:
            ctx.probe("torn_load_raised")
        else:
            rb = attempt(lambda: readback(out.value))
            ctx.probe("torn_load_equal" if (not rb.failed and all(eq(rb.value[f], model[f]) for f in ("x", "T"))) else "torn_load_DIFFERENT_nongating")
        log.add("op", entry, "torn-probe")
        return
    # ---------------- stored result: two-sided oracle
    if k == "trajectory":
        out = attempt(lambda: real.trajectory)
        if out.failed:
            log.add("op", entry, "unset")
            ctx.probe("trajectory_unset")
            return
        tr = out.value
        got = {"states": np.array(tr.states), "times": np.array(tr.times)}
        if model["lastprop"] is None:
            rs = ob.get("restored")
            if rs is not None and digest(got["states"]) in [d for d in rs["earlier_traj"] + [rs["traj"]] if d] \
                    and known_active("C20-K1-second-roundtrip-resurrects-cleared-values"):
                ctx.note_known("C20-K1-second-roundtrip-resurrects-cleared-values")
                return
            diverge(ctx, "C20/orbit/trajectory-stale", f"orbit.trajectory holds a {got['states'].shape[0]}-sample result although no propagation has been "
                    f"made since the state/period last changed (x={brief(model['x'])}, T={model['T']})", hist)
            return
        pi = model["lastprop"]
        exp = twin_memo(("orbit-prop", model["spec"], model["x"], model["T"], pi), lambda: attempt(lambda: apply(twin_of(model, U), ("propagate", pi), model)))
        if exp.failed or not eq(got, exp.value):
            diverge(ctx, "C20/orbit/trajectory-stale", f"orbit.trajectory ({got['states'].shape[0]} samples, t_end={got['times'][-1]:.6f}) is not the result of the last "
                    f"propagate call {PROPS[pi]} at the current state (fresh: {exp.value['states'].shape[0] if not exp.failed else exp.kind()} samples"
                    f"{', t_end=%.6f' % exp.value['times'][-1] if not exp.failed else ''})", hist)
        log.add("op", entry, "stored", digest(got))
        ctx.probe("stored_result_compared")
        return
    # ---------------- ordinary operations: real vs fresh twin
    if k == "propagate" and model["T"] is None:
        pass  # both must raise
    exp = twin_memo(("orbit-op", model["spec"], model["x"], model["T"], model["amp"], model["opts"], model.get("cfgvar", 0), model.get("ccfg", 0), op),
                    lambda: _twin_apply(model, op, U))
    t_out, t_rb = exp
    r_out = attempt(lambda: apply(real, op, model))
    log.add("op", entry, r_out.kind(), digest(r_out.value) if not r_out.failed else None)
    if r_out.failed != t_out.failed and ob["reloaded"] and (model["opts"] is not None or model.get("cfgvar") or model.get("ccfg")) \
            and k in ("correct_default", "correct", "generate") and known_active("C20-K3-user-set-correction-options-lost-by-save-load"):
        m2 = dict(model, opts=None, cfgvar=0, ccfg=0)
        alt_out, alt_rb = twin_memo(("orbit-op", m2["spec"], m2["x"], m2["T"], m2["amp"], None, 0, 0, op), lambda: _twin_apply(m2, op, U))
        if alt_out.failed == r_out.failed and (r_out.failed or eq(r_out.value, alt_out.value)):
            ctx.note_known("C20-K3-user-set-correction-options-lost-by-save-load")
            model["opts"], model["cfgvar"], model["ccfg"] = None, 0, 0
            t_out, t_rb = alt_out, alt_rb
    if r_out.failed != t_out.failed:
        raise Violation(f"C20/orbit/outcome-{k}", f"operation {op} on the long-lived object: {r_out.kind()} ({r_out.exc}); on a fresh twin in the same "
                                                  f"logical state: {t_out.kind()} ({t_out.exc}) | history: {hist}")
    if r_out.failed:
        ctx.probe("failed_op_then_continue")
        ctx.fault("op_failed_" + type(r_out.exc).__name__)
    elif not eq(r_out.value, t_out.value) and (k in ("correct_default", "correct", "generate") or op == ("read", "corr_tol")) and ob["reloaded"] \
            and (model["opts"] is not None or model.get("cfgvar") or model.get("ccfg")) \
            and known_active("C20-K3-user-set-correction-options-lost-by-save-load"):
        # K3: exactly what a fresh orbit WITHOUT the user-set options computes
        m2 = dict(model, opts=None, cfgvar=0, ccfg=0)   # what the reloaded object is: services rebuilt with the family defaults
        alt_out, alt_rb = twin_memo(("orbit-op", m2["spec"], m2["x"], m2["T"], m2["amp"], None, 0, 0, op), lambda: _twin_apply(m2, op, U))
        if not alt_out.failed and eq(r_out.value, alt_out.value):
            ctx.note_known("C20-K3-user-set-correction-options-lost-by-save-load")
            model["opts"] = None
            model["cfgvar"] = 0
            model["ccfg"] = 0
            t_rb = alt_rb
        else:
            raise Violation(f"C20/orbit/value-{k}", f"{op} returned {_first_diff(r_out.value, t_out.value)} | history: {hist}")
    elif not eq(r_out.value, t_out.value):
        what = k + ("-" + str(op[1]) if k == "read" else "")
        detail = _first_diff(r_out.value, t_out.value)
        raise Violation(f"C20/orbit/value-{what}", f"{op} returned {detail} | history: {hist}")
    if k == "sys_propagate" and not r_out.failed:
        # independent reference (the twins share process-wide compiled-function caches with the object under test):
        # the end point of system.propagate must be the flow of the CR3BP over +-tf from the same start
        from models import cr3bp_ref
        from scipy.integrate import solve_ivp
        fwd = SYSPROPS[op[1]][0]
        mu = float(U["sys_twin"][SPECS[model["spec"]]["sys"]].mu)
        ref = twin_memo(("sysprop-ref", mu, model["x"], fwd), lambda: solve_ivp(cr3bp_ref.rhs(mu), (0.0, fwd * 0.8), np.array(model["x"], float),
                                                                                 method="DOP853", rtol=1e-12, atol=1e-13).y[:, -1])
        err = float(np.max(np.abs(r_out.value["states"][-1] - ref)))
        if err > 1e-6 or abs(float(r_out.value["times"][-1]) - fwd * 0.8) > 1e-12:
            raise Violation("C20/system/propagate-vs-independent", f"system.propagate(forward={fwd}, {SYSPROPS[op[1]][1]} order {SYSPROPS[op[1]][2]}) from {brief(model['x'])} ends at "
                                                                   f"{brief(r_out.value['states'][-1])}, t={r_out.value['times'][-1]}; an independent DOP853 integration over "
                                                                   f"{fwd * 0.8} ends at {brief(ref)} (|diff|={err:.3e}) | history: {hist}")
        ctx.probe("system_propagate_checked_independently")
    if k == "propagate" and not r_out.failed:
        model["lastprop"] = op[1]
    if k in MUTATORS or r_out.failed or k == "bad_period":
        rb = readback(real)
        for f in ("x", "T"):
            if not eq(rb[f], t_rb[f]):
                raise Violation(f"C20/orbit/state-{f}-after-{k}", f"after {op}: {f} = {brief(rb[f])} on the long-lived object, {brief(t_rb[f])} on a fresh twin "
                                                                    f"(before the operation: x={brief(model['x'])}, T={model['T']}) | history: {hist}")
        ob["model"] = model_after(model, op, t_rb)
        ctx.probes["_mutated"] = 1


def _twin_apply(model, op, U):
    tw = twin_of(model, U)
    out = attempt(lambda: apply(tw, op, model))
    return out, readback(tw)


def _first_diff(a, b):
    if isinstance(a, dict):
        for key in a:
            if not eq(a[key], b.get(key)):
                return f"{key}: {brief(a[key])} on the long-lived object vs {brief(b.get(key))} on a fresh twin"
    return f"{brief(a)} on the long-lived object vs {brief(b)} on a fresh twin"


# --------------------------------------------------------------------------- bounded-exhaustive enumeration
CORE3 = [("set_period", "x1.1"), ("correct", 0, 0), ("read", "monodromy"), ("read", "stability_indices"), ("read", "is_stable"), ("propagate", 0),
         ("propagate", 3), ("trajectory",)]


CORE3B = [("correct", 1, 1), ("correct", 0, 0), ("set_corr_config", 1), ("set_opts", 1), ("correct_default",), ("read", "period")]


GEN_HISTORIES = [[("generate", 0), ("set_cont_config", 1), ("generate", 0)],
                 [("set_cont_config", 1), ("generate", 0), ("set_cont_config", 0), ("generate", 0)],
                 [("generate", 0), ("set_cont_config", 1), ("generate", 1), ("generate", 0)]]
LOAD3 = ([("propagate", 0), ("read", "stability_indices")], [("load_inplace_other", 0), ("load_inplace_other", 1)],
         [("trajectory",), ("read", "period"), ("read", "stability_indices"), ("read", "eigenvalues")])


def enumeration(max_len: int):
    """Choice sequences for every history of length <= max_len over REDUCED on one EM L1 halo orbit; when max_len < 3,
    additionally every history of length exactly 3 over the small CORE3 alphabet (compute -> mutate -> re-read is the
    shortest staleness pattern)."""
    import itertools
    if max_len < 3:
        core = [ALPHABET.index(op) + 1 for op in CORE3]
        for seq in itertools.product(core, repeat=3):
            yield [0, 0, 0, 1] + list(seq) + [0]     # on an orbit that starts corrected, with its period set
        for a in LOAD3[0]:
            for b in LOAD3[1]:
                for c in LOAD3[2]:
                    yield [0, 0, 0, 1] + [ALPHABET.index(o) + 1 for o in (a, b, c)] + [0]   # compute; load another orbit's file in place; re-read
        for seq in GEN_HISTORIES:
            yield [0, 0, 0, 1] + [ALPHABET.index(o) + 1 for o in seq] + [0]   # families before and after a change of the continuation configuration
        coreb = [ALPHABET.index(op) + 1 for op in CORE3B]
        for seq in itertools.product(coreb, repeat=3):
            yield [0, 0, 1, 0] + list(seq) + [0]     # on a Lyapunov orbit that starts at the analytic guess: corrections have real work to do
    idx = [ALPHABET.index(op) + 1 for op in REDUCED]
    # prefix: machine=orbit(0), n_objects=1 (0), spec index 0
    for L in range(1, max_len + 1):
        for seq in itertools.product(idx, repeat=L):
            vals = [0, 0, 0, 0]
            for k in seq:
                vals.append(k)
                if ALPHABET[k - 1][0] == "save_fault":
                    vals.append(1)  # fault after 17 bytes
            vals.append(0)
            yield vals
