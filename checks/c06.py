"""C06 -- polynomial algebra is exact and independent of thread scheduling (DESIGN.md 3.1)."""
from __future__ import annotations

import json
import os
import random
import subprocess
import sys
import time
from fractions import Fraction
from pathlib import Path

import numpy as np

from models import polymodel as pm
from simkit.decisions import fhex
from simkit.run import RunCtx, Violation

PROPERTY = "C06"
LEVEL = "exploration"
DEFAULT_LEG = "sim"

RULE = ("each run draws an operation (kernel level: add, scale, mul, diff, poisson, integrate, evaluate; list level: multiply, power, "
        "poisson_bracket, differentiate, jacobian, integrate, evaluate, add_inplace, substitute_linear, substitute_affine), degrees, "
        "real/complex dtype, a coefficient class (small ints, ints up to 2^22, dyadic rationals, generic floats) and a sparsity pattern "
        "biased towards colliding output slots (evaluation points mix generic, zero, real and unit coordinates and may be scaled as a whole "
        "to 1e-16 / 1e-20 / 3e-9); the COMPILED function's result is compared with an exact Gaussian-rational model, and "
        "every function that is or reaches a parallel kernel is re-executed from its own Python source inside the prange simulator "
        "under a drawn thread count (1..16), iteration partition (static / chunked / arbitrary) and scheduling policy (conflict-directed "
        "rmw, random run lengths, PCT, permutation, round-robin, reverse, serial), and must again equal the model bit for bit (exact "
        "classes). Pre-phase: exhaustive encode/decode bijection sweep over all 1 947 792 multi-indices of degree <= 30. Post-phase: "
        "real-binary sweep over numba thread counts, chunk sizes and both threading layers in fresh subprocesses. A run is non-trivial "
        "iff >= 2 simulated threads were active and >= 1 context switch happened; distinct = distinct (operation, inputs digest, "
        "per-cell load/store order signature). Workload dimensions added against seeded changes: operands longer and shorter than the "
        "truncation degree, complex blocks with vanishing real or imaginary parts, substitution matrices with zero rows (+ shifts on them), "
        "permutations, conjugate pairs and power-of-two rescalings over a wide dynamic range, an optional prior call in the same run. "
        "Warm-up: the compiled calls are first made in a sacrificial interpreter; a call that aborts it (nested parallel region under the "
        "workqueue layer) is skipped in-process, still simulated from source, and reported as a violation after the search.")
ASSUMPTIONS = [
    "numba compiles the kernels' Python source faithfully and implements prange privatisation/reduction semantics as documented",
    "memory model: sequential consistency at array-cell granularity; torn complex128 stores, store reordering and false sharing are not modelled",
    "pre-emption points: before every simple statement of a prange body and between the load and the store of a subscripted augmented assignment",
    "a call from a simulated loop body into a compiled helper that neither is nor reaches a parallel kernel is ONE atomic step: a race between the load and the store inside such a helper on a shared argument is not explored (seeded change c06i, DESIGN.md 10.2)",
    "the substitutions' documented final clean (|c| <= 1e-14 -> 0) is the only place where a coefficient of the result may vanish (rescaling matrices only)",
    "the slot<->exponent map is taken from the library's tables; its bijectivity is established separately by the exhaustive layout sweep",
    "operations that divide (integrate) or multiply many factors (evaluate, float class) are compared to the rational model to 4 ulp / 1e-12 relative, not bitwise",
]
COMPONENTS = {
    "real": ["compiled kernels of polynomial/algebra.py, operations.py, base.py (numba JIT, 1 thread in simulation workers; 1..16 threads in the real-binary leg)",
             "the Python source of every dispatcher that is or reaches a parallel kernel, executed under the prange simulator"],
    "stub": ["numba's parallel runtime (prange scheduling, get_thread_id, get_num_threads): simulated",
             "leaf dispatchers called from simulated code (_decode_multiindex, _encode_multiindex, _fill_exponents) run compiled"],
}
TIERS = {
    "quick": {"budget_s": 75.0, "max_runs": 400000, "chunk": 8, "run_timeout": 300.0, "min_budget": 45.0,
              "realbin_reps": 2, "realbin_cases": 12},
    "thorough": {"budget_s": 900.0, "max_runs": 10_000_000, "chunk": 16, "run_timeout": 300.0, "min_budget": 90.0,
                 "realbin_reps": 12, "realbin_cases": 120},
}

SIM = None
ALG = OPS = BASE = COORDS = None
PSI = CLMO = ENC = None
_TL = None


def warmup(tier: str) -> None:
    global SIM, ALG, OPS, BASE, PSI, CLMO, ENC, _TL, COORDS
    import hiten.algorithms.polynomial.coordinates as coords
    COORDS = coords
    import hiten.algorithms.polynomial.algebra as alg
    import hiten.algorithms.polynomial.operations as ops
    import hiten.algorithms.polynomial.base as base
    from numba.typed import List as TL
    from sims.prange_sim import PrangeSim
    ALG, OPS, BASE, _TL = alg, ops, base, TL
    PSI, CLMO, ENC = base._PSI_GLOBAL, base._CLMO_GLOBAL, base._ENCODE_DICT_GLOBAL
    SIM = PrangeSim([alg, ops])
    # JIT warm-up of everything the runs call (children inherit the compiled code). A sacrificial interpreter makes the same calls
    # first: a compiled function that launches a parallel region from inside another one aborts the whole process under the
    # workqueue threading layer, and that must become a reported violation, not the death of the check.
    import numba
    numba.set_num_threads(1)
    ABORTING.clear()
    ABORTING.update(_find_aborting())
    for name, thunk in _warm_calls(alg, ops):
        if name not in ABORTING:
            thunk()


ABORTING: set = set()


def _warm_calls(alg, ops):
    calls = []

    def both(name, f):
        def run():
            for cplx in (False, True):
                dt = np.complex128 if cplx else np.float64
                f(np.ones(6, dtype=dt), np.zeros(6, dtype=dt))
        calls.append((name, run))
    both("_poly_add", lambda p, out: alg._poly_add(p, p, out))
    both("_poly_scale", lambda p, out: alg._poly_scale(p, 2.0, out))
    both("_poly_mul", lambda p, out: alg._poly_mul(p, 1, p, 1, PSI, CLMO, ENC))
    both("_poly_diff", lambda p, out: alg._poly_diff(p, 0, 1, PSI, CLMO, ENC))
    both("_poly_poisson", lambda p, out: alg._poly_poisson(p, 1, p, 1, PSI, CLMO, ENC))
    both("_poly_integrate", lambda p, out: alg._poly_integrate(p, 0, 1, PSI, CLMO, ENC))
    both("_poly_evaluate", lambda p, out: alg._poly_evaluate(p, 1, np.ones(6, dtype=np.complex128), CLMO))

    def mk():
        P = ops._polynomial_zero_list(2, PSI)
        P[1][0] = 1.0
        return P
    calls.append(("_polynomial_multiply", lambda: ops._polynomial_multiply(mk(), mk(), 2, PSI, CLMO, ENC)))
    calls.append(("_polynomial_power", lambda: ops._polynomial_power(mk(), 2, 2, PSI, CLMO, ENC)))
    calls.append(("_polynomial_poisson_bracket", lambda: ops._polynomial_poisson_bracket(mk(), mk(), 2, PSI, CLMO, ENC)))
    calls.append(("_polynomial_differentiate", lambda: ops._polynomial_differentiate(mk(), 0, 2, PSI, CLMO, PSI, CLMO, ENC)))
    calls.append(("_polynomial_jacobian", lambda: ops._polynomial_jacobian(mk(), 2, PSI, CLMO, ENC)))
    calls.append(("_polynomial_integrate", lambda: ops._polynomial_integrate(mk(), 0, 2, PSI, CLMO, PSI, CLMO, ENC)))
    calls.append(("_polynomial_evaluate", lambda: ops._polynomial_evaluate(mk(), np.ones(6, dtype=np.complex128), CLMO)))
    calls.append(("_polynomial_add_inplace", lambda: ops._polynomial_add_inplace(mk(), mk(), 2.0, 2)))
    calls.append(("_substitute_linear", lambda: ops._substitute_linear(mk(), np.eye(6), 2, PSI, CLMO, ENC)))
    calls.append(("_substitute_affine", lambda: ops._substitute_affine(mk(), np.eye(6), np.zeros(6), 2, PSI, CLMO, ENC)))
    return calls


def _canary_main():
    """Runs in the sacrificial interpreter: the warm-up calls one by one, with markers."""
    global PSI, CLMO, ENC
    import hiten.algorithms.polynomial.algebra as alg
    import hiten.algorithms.polynomial.operations as ops
    import hiten.algorithms.polynomial.base as base
    import numba
    numba.set_num_threads(2)
    PSI, CLMO, ENC = base._PSI_GLOBAL, base._CLMO_GLOBAL, base._ENCODE_DICT_GLOBAL
    skip = set(filter(None, os.environ.get("VERIF_C06_SKIP", "").split(",")))
    for name, thunk in _warm_calls(alg, ops):
        if name in skip:
            continue
        print(f"CANARY-BEGIN {name}", flush=True)
        thunk()
        print(f"CANARY-OK {name}", flush=True)


def _find_aborting() -> set:
    here = Path(__file__).resolve().parent.parent
    found: set = set()
    for _ in range(8):
        env = dict(os.environ, VERIF_C06_SKIP=",".join(sorted(found)), NUMBA_THREADING_LAYER="workqueue")
        p = subprocess.run([sys.executable, "-c", "import sys; sys.path.insert(0, %r); from checks import c06; c06._canary_main()" % str(here)],
                           cwd=str(here), env=env, capture_output=True, text=True, timeout=900)
        if p.returncode == 0:
            return found
        begun = [l.split()[1] for l in p.stdout.splitlines() if l.startswith("CANARY-BEGIN ")]
        done = {l.split()[1] for l in p.stdout.splitlines() if l.startswith("CANARY-OK ")}
        last = [b for b in begun if b not in done]
        if not last or "threading layer is terminating" not in (p.stderr + p.stdout):
            raise RuntimeError(f"C06 canary interpreter died (rc={p.returncode}) for another reason than a nested parallel region: {p.stderr[-1500:]}")
        found.add(last[-1])
    return found


# --------------------------------------------------------------------------- slot <-> exponent through the library tables
def decode(i: int, d: int) -> tuple:
    return tuple(int(v) for v in BASE._decode_multiindex(i, d, CLMO))


def encode(k: tuple, d: int) -> int:
    return int(BASE._encode_multiindex(np.asarray(k, dtype=np.int64), d, ENC))


def block_to_poly(arr: np.ndarray, d: int) -> pm.Poly:
    p = {}
    for i in np.flatnonzero(arr):
        p[decode(int(i), d)] = pm.GQ.of(complex(arr[i]))
    return p


def poly_to_block(p: pm.Poly, d: int, dtype=np.complex128) -> np.ndarray:
    out = np.zeros(int(PSI[6, d]), dtype=np.complex128)
    for k, v in p.items():
        if sum(k) != d:
            continue
        s = encode(k, d)
        if s < 0 or s >= out.shape[0]:
            raise Violation("C06/layout", f"exponent {k} of degree {d} has no slot (encode returned {s})")
        out[s] = complex(v)
    return out


def list_to_poly(P) -> pm.Poly:
    p = {}
    for d in range(len(P)):
        p.update(block_to_poly(np.asarray(P[d]), d))
    return p


# --------------------------------------------------------------------------- input generation
SMALL = [1, -1, 2, 3, -2, 5, -7, 8, 4, -3]
LARGE = [2 ** 22, -(2 ** 22) + 1, 2 ** 21 + 12345, -1234567, 3 * 2 ** 20 + 1, 2 ** 22 - 3]
DYAD = [Fraction(1, 2), Fraction(-3, 4), Fraction(5, 8), Fraction(-1, 16), Fraction(7, 2), Fraction(3, 256)]
# ~1e-13 .. 3e-12: small, legitimately non-zero, above the 1e-14 cleaning tolerance of the substitutions; all multiples of 2^-43 with
# small numerators, so that every partial sum is still exactly representable
TINY = [Fraction(1, 2 ** 43), Fraction(-3, 2 ** 43), Fraction(8, 2 ** 43), Fraction(-5, 2 ** 43), Fraction(24, 2 ** 43), Fraction(7, 2 ** 43)]


def _val(cls: str, cplx: bool, a: int, b: int):
    if cls == "float":
        r = random.Random(a * 1000003 + b)
        re, im = r.uniform(-2, 2), r.uniform(-2, 2)
    else:
        tab = {"small": SMALL, "large": LARGE, "dyadic": DYAD, "tiny": TINY}[cls]
        re, im = tab[a % len(tab)], tab[(a * 7 + b * 3 + 1) % len(tab)]
    return complex(float(re), float(im)) if cplx else float(re)


def gen_block(ds, d: int, cls: str, cplx: bool, tag: str, allow_zero: bool = False) -> np.ndarray:
    n = int(PSI[6, d])
    arr = np.zeros(n, dtype=np.complex128 if cplx else np.float64)
    mode = ds.pick(["few", "dense", "stride"], f"{tag}.density", (0.45, 0.35, 0.2)) if d <= 8 else "few"
    # complex blocks whose real (or imaginary) parts all vanish: tests on "is this block zero" must look at both parts
    parts = ds.pick(["both", "imag", "real"], f"{tag}.parts", (0.7, 0.2, 0.1)) if cplx else "both"
    cut = (lambda v: v) if parts == "both" else ((lambda v: complex(0.0, v.imag)) if parts == "imag" else (lambda v: complex(v.real, 0.0)))
    if mode == "few":
        nnz = ds.choose(5, f"{tag}.nnz") + (0 if allow_zero else 1)
        for j in range(min(nnz, n)):
            pos = ds.choose(n, f"{tag}.pos[{j}]")
            arr[pos] = cut(_val(cls, cplx, ds.choose(10, f"{tag}.val[{j}]"), j))
    else:
        a = ds.choose(10, f"{tag}.a")
        stride = 1 if mode == "dense" else 2 + ds.choose(3, f"{tag}.stride")
        off = ds.choose(stride, f"{tag}.off") if stride > 1 else 0
        for i in range(off, n, stride):
            arr[i] = cut(_val(cls, cplx, a + i, i))
    return arr


def gen_list(ds, max_deg: int, cls: str, tag: str, min_deg: int = 0, extra: int = 0):
    """A polynomial as a list of homogeneous blocks; `extra` blocks beyond max_deg model an operand that is longer than
    the truncation degree of the operation it is passed to."""
    max_deg = max_deg + extra
    P = OPS._polynomial_zero_list(max_deg, PSI)
    nonempty = False
    for d in range(min_deg, max_deg + 1):
        if ds.flag(f"{tag}.deg{d}.present", 0.7) or (d == max_deg and not nonempty):
            blk = gen_block(ds, d, cls, True, f"{tag}.deg{d}")
            P[d][:] = blk
            nonempty = nonempty or bool(np.any(blk))
    return P


# --------------------------------------------------------------------------- comparison
def cmp_block(got, expected: pm.Poly, d: int, exact: bool, what: str, vprefix: str, scale_terms: float = 0.0, clean_tol: float = 0.0):
    got = np.asarray(got)
    exp = poly_to_block(expected, d)
    if got.shape != exp.shape:
        raise Violation(f"{vprefix}-shape", f"{what}: result has shape {got.shape}, expected {exp.shape} for degree {d}")
    gotc = got.astype(np.complex128)
    if clean_tol:
        # the substitutions document a final clean: a coefficient of the RESULT with |value| <= clean_tol may come back as 0
        cleaned = (np.abs(exp) <= clean_tol * (1 + 1e-9)) & (gotc == 0)
        exp = np.where(cleaned, 0.0, exp)
    if exact:
        if not np.array_equal(gotc, exp):
            bad = np.flatnonzero(gotc != exp)
            i = int(bad[0])
            raise Violation(vprefix, f"{what}: {len(bad)} coefficient(s) differ from the exact result, first at slot {i} "
                                     f"(exponents {decode(i, d)}): got {gotc[i]}, expected {exp[i]}")
    else:
        scale = np.maximum(np.abs(exp), scale_terms)
        tol = 1e-12 * np.maximum(scale, 1e-300) + 4 * np.spacing(np.maximum(np.abs(exp), 1e-300))
        err = np.abs(gotc - exp)
        if not np.all(err <= tol):
            i = int(np.argmax(err - tol))
            raise Violation(vprefix, f"{what}: slot {i} (exponents {decode(i, d)}): got {gotc[i]}, expected {exp[i]}, |err|={err[i]:.3e}")


def cmp_list(got, expected: pm.Poly, max_deg: int, exact: bool, what: str, vprefix: str, scale_terms: float = 0.0, clean_tol: float = 0.0):
    if len(got) != max_deg + 1:
        raise Violation(f"{vprefix}-shape", f"{what}: result has {len(got)} degree blocks, expected {max_deg + 1}")
    for d in range(max_deg + 1):
        cmp_block(np.asarray(got[d]), pm.homogeneous(expected, d), d, exact, f"{what} [degree {d}]", vprefix, scale_terms, clean_tol)
    if any(sum(k) > max_deg for k in expected):
        raise AssertionError("model result exceeds max_deg")  # harness bug guard


# --------------------------------------------------------------------------- operations
OPLIST = ["mul", "diff", "poisson", "multiply", "poisson_bracket", "differentiate", "jacobian", "power",
          "substitute_linear", "substitute_affine", "add", "scale", "integrate", "evaluate",
          "l_integrate", "l_evaluate", "add_inplace", "subst_coords", "reduced_monomial"]
OPW = [0.2, 0.12, 0.1, 0.1, 0.08, 0.06, 0.05, 0.05, 0.04, 0.04, 0.03, 0.02, 0.04, 0.03, 0.02, 0.01, 0.01, 0.01, 0.01]
DEGP = [(1, 1), (2, 1), (2, 2), (1, 0), (3, 2), (3, 3), (0, 2), (4, 2), (4, 4), (6, 2), (5, 3)]
DEGP_W = [0.22, 0.15, 0.2, 0.04, 0.12, 0.08, 0.03, 0.07, 0.03, 0.03, 0.03]
DEGP_W_HEAVY = [0.02, 0.02, 0.06, 0.0, 0.1, 0.2, 0.0, 0.15, 0.25, 0.1, 0.1]
OPW_HEAVY = [0.4, 0.15, 0.15, 0.1, 0.08, 0.04, 0.03, 0.03, 0.01, 0.01, 0, 0, 0, 0, 0, 0, 0, 0, 0]
SIM_MAX_PAIR = 3600  # p.size*q.size bound inside the simulator


class Case:
    """One drawn operation with its inputs; `run(ns)` executes it in a namespace of callables."""

    def __init__(self, ds, heavy: bool = False):
        self.ds = ds
        self.heavy = heavy
        self.op = ds.pick(OPLIST, "op", OPW_HEAVY if heavy else OPW)
        self.cls = ds.pick(["small", "large", "dyadic", "float", "tiny"], "coef_class", (0.45, 0.2, 0.13, 0.14, 0.08))
        op = self.op
        if op in ("power", "substitute_linear", "substitute_affine", "poisson", "poisson_bracket") and self.cls == "large":
            self.cls = "small"  # keep every partial sum exactly representable
        if op in ("power", "substitute_linear", "substitute_affine") and self.cls == "float":
            self.cls = "dyadic"
        self.exact = self.cls != "float"
        self.cplx = ds.flag("complex", 0.5)
        self.desc: dict = {"op": op, "class": self.cls}
        g = getattr(self, "_gen_" + op)
        g()

    # ---- generation
    def _two(self, poisson=False):
        dp, dq = self.ds.pick(DEGP, "degrees", DEGP_W_HEAVY if self.heavy else DEGP_W)
        if poisson:
            dp, dq = max(dp, 1), max(dq, 1)
        self.dp, self.dq = dp, dq
        self.p = gen_block(self.ds, dp, self.cls, self.cplx, "p")
        self.q = gen_block(self.ds, dq, self.cls, self.cplx, "q")
        self.desc.update(deg_p=dp, deg_q=dq, nnz_p=int(np.count_nonzero(self.p)), nnz_q=int(np.count_nonzero(self.q)), complex=self.cplx)

    def _gen_mul(self):
        self._two()

    def _gen_poisson(self):
        self._two(poisson=True)

    def _gen_add(self):
        self.dp = self.ds.pick([2, 0, 1, 3, 5], "degree")
        self.p = gen_block(self.ds, self.dp, self.cls, self.cplx, "p")
        self.q = gen_block(self.ds, self.dp, self.cls, self.cplx, "q")
        self.desc.update(deg=self.dp)

    def _gen_scale(self):
        self.dp = self.ds.pick([2, 0, 1, 3, 5], "degree")
        self.p = gen_block(self.ds, self.dp, self.cls, self.cplx, "p")
        self.alpha = _val("small" if self.cls in ("large", "tiny") else self.cls, self.cplx, self.ds.choose(10, "alpha"), 1)
        self.desc.update(deg=self.dp)

    def _one(self, degs):
        self.dp = self.ds.pick(degs, "degree")
        self.var = self.ds.choose(6, "var")
        self.p = gen_block(self.ds, self.dp, self.cls, self.cplx, "p")
        self.desc.update(deg=self.dp, var=self.var, nnz=int(np.count_nonzero(self.p)), complex=self.cplx)

    def _gen_diff(self):
        self._one([6, 8, 4, 5] if self.heavy else [2, 1, 3, 4, 0, 6, 8, 17, 24, 30])

    def _gen_integrate(self):
        self._one([2, 1, 3, 0, 5, 7, 16, 23, 29])

    def _point(self, pcls):
        pt = []
        for i in range(6):
            kind = self.ds.choose(4, f"pt[{i}].kind", (0.6, 0.25, 0.1, 0.05))
            v = _val(pcls, True, self.ds.choose(10, f"pt[{i}]"), i)
            pt.append(v if kind == 0 else (0.0 if kind == 1 else (complex(v.real, 0.0) if kind == 2 else v * 0.0 + 1.0)))
        # the whole point may sit at rounding-level magnitudes (non-zero coordinates of modulus 1e-16 .. 1e-20): the value is then
        # tiny but defined, and is judged relative to the sum of |terms| like any other
        sc = self.ds.pick([1.0, 1e-16, 1e-20, 3e-9], "point.scale", (0.85, 0.06, 0.04, 0.05)) if self.op in ("evaluate", "l_evaluate") else 1.0
        if sc != 1.0:
            pt = [x * sc for x in pt]
        if self.ds.flag("point.float64", 0.2):
            return np.array([complex(x).real for x in pt], dtype=np.float64)   # a real-typed point
        return np.array(pt, dtype=np.complex128)

    def _gen_evaluate(self):
        self.dp = self.ds.pick([2, 1, 3, 0, 5, 8], "degree")
        self.p = gen_block(self.ds, self.dp, self.cls, self.cplx, "p")
        pcls = "small" if self.cls in ("large", "tiny") else self.cls
        self.point = self._point(pcls)
        self.exact = False
        self.desc.update(deg=self.dp)

    def _lists(self, two=True, maxdegs=(2, 1, 3, 4)):
        self.max_deg = self.ds.pick(list(maxdegs), "max_deg", [1.0 + 3.0 * self.heavy * (m >= 3) for m in maxdegs])
        # operands may carry blocks above the truncation degree (multiply / poisson_bracket / power / add_inplace accept that)
        ex = self.ds.pick([0, 1, 2], "operand_blocks_beyond_max_deg", (0.6, 0.25, 0.15)) if self.op in ("multiply", "poisson_bracket", "power", "add_inplace") else 0
        if self.max_deg + ex > 5:
            ex = max(0, 5 - self.max_deg)
        exp_ = exq = ex
        if self.op in ("multiply", "power") and self.max_deg >= 1:
            # operands may also be SHORTER than the truncation degree, each on its own (a linear polynomial in 2 blocks multiplied into degree 4)
            exp_ = max(-self.max_deg, self.ds.pick([ex, -1, -2], "P.fewer_blocks", (0.7, 0.2, 0.1)))
            if self.op == "multiply":
                exq = max(-self.max_deg, self.ds.pick([ex, -1, -2, 0], "Q.fewer_blocks", (0.6, 0.15, 0.1, 0.15)))
        self.P = gen_list(self.ds, self.max_deg, self.cls, "P", extra=exp_)
        if self.op == "add_inplace" and self.max_deg >= 1:
            exq = self.ds.pick([ex, 0, -1], "Q.blocks_relative_to_P")   # the added list may be shorter or longer than the target
        self.Q = gen_list(self.ds, self.max_deg, self.cls, "Q", extra=exq) if two else None
        self.desc.update(max_deg=self.max_deg, operand_blocks=self.max_deg + exp_ + 1)
        if two and exq != exp_:
            self.desc.update(second_operand_blocks=self.max_deg + exq + 1)

    def _gen_multiply(self):
        self._lists()

    def _gen_poisson_bracket(self):
        self._lists(maxdegs=(2, 3, 4))

    def _gen_power(self):
        self._lists(two=False, maxdegs=(2, 3, 4))
        self.k = self.ds.pick([2, 3, 0, 1, 4], "power")
        self.desc.update(k=self.k)

    def _gen_differentiate(self):
        self._lists(two=False, maxdegs=(2, 1, 3, 4, 0))
        self.var = self.ds.choose(6, "var")

    def _gen_jacobian(self):
        self._lists(two=False, maxdegs=(2, 1, 3))

    def _gen_l_integrate(self):
        self._lists(two=False, maxdegs=(2, 1, 3, 0))
        self.var = self.ds.choose(6, "var")

    def _gen_l_evaluate(self):
        self._lists(two=False)
        pcls = "small" if self.cls in ("large", "tiny") else self.cls
        self.point = self._point(pcls)
        self.exact = False

    def _gen_add_inplace(self):
        self._lists()
        self.scale = self.ds.pick([1.0, -1.0, 2.0, 0.5], "scale")
        self.lim = self.ds.pick([-1, self.max_deg, max(0, self.max_deg - 1)], "limit")

    def _subst(self, affine):
        ds = self.ds
        self.max_deg = ds.pick([2, 1, 3], "max_deg")
        if self.cls == "large":
            self.cls = "small"
        P = OPS._polynomial_zero_list(self.max_deg, PSI)
        nterms = 1 + ds.choose(3, "P.nterms")
        for j in range(nterms):
            d = ds.choose(self.max_deg + 1, f"P.term[{j}].deg")
            pos = ds.choose(int(PSI[6, d]), f"P.term[{j}].pos")
            P[d][pos] = _val(self.cls, True, ds.choose(10, f"P.term[{j}].val"), j)
        self.P = P
        C = np.zeros((6, 6), dtype=np.complex128 if ds.flag("C.complex", 0.3) else np.float64)
        shape = ds.pick(["identity", "zero_row", "zero_diagonal", "permutation", "conjugate_pair", "rescale"], "C.shape", (0.42, 0.15, 0.15, 0.1, 0.1, 0.08))
        for i in range(6):
            C[i, i] = 1.0
        self.rescaled = shape == "rescale"
        if shape == "rescale":
            # symplectic rescaling q_i -> s q_i, p_i -> p_i / s with a wide dynamic range: partial products of a term dip far below
            # the size of its final coefficient. Powers of two keep everything exact. The polynomial is made of terms that
            # contain both partners (final coefficient O(1)) next to the drawn ones.
            i = ds.choose(3, "C.rescale.pair")
            e = ds.pick([50, 60, 24, 12], "C.rescale.log2")   # 2^-50 times any coefficient of the classes is below the cleaning tolerance
            C[i, i], C[i + 3, i + 3] = 2.0 ** -e, 2.0 ** e
            if ds.flag("C.rescale.swap_partners", 0.3):
                C[i, i], C[i + 3, i + 3] = C[i + 3, i + 3], C[i, i]
            a = 1 + ds.choose(min(4, self.max_deg // 2), "C.rescale.power") if self.max_deg >= 2 else 0
            if a:
                k = [0] * 6
                k[i], k[i + 3] = a, a
                P[2 * a][encode(tuple(k), 2 * a)] += _val("small" if self.cls == "tiny" else self.cls, True, ds.choose(10, "C.rescale.val"), 1)
        if shape == "zero_row":
            # one to three variables map to 0 (or, with a shift, to pure constants): restriction to a slice, evaluation by substitution
            for z in range(1 + ds.choose(3, "C.zero_rows.count")):
                C[ds.choose(6, f"C.zero_row[{z}]"), :] = 0.0
        elif shape == "zero_diagonal":
            i = ds.choose(6, "C.zero_diag")
            C[i, i] = 0.0
            C[i, (i + 1) % 6] = 2.0
        elif shape == "permutation":
            C = C[[1, 0, 2, 4, 3, 5], :].copy()
        elif shape == "conjugate_pair":
            C = C.astype(np.complex128)
            C[0, 0], C[0, 3], C[3, 0], C[3, 3] = 1.0, 1.0j, 1.0, -1.0j
        for j in range(0 if shape == "rescale" else ds.choose(5, "C.extra")):
            r, c = ds.choose(6, f"C[{j}].row"), ds.choose(6, f"C[{j}].col")
            v = SMALL[ds.choose(6, f"C[{j}].val")]
            C[r, c] = complex(v, SMALL[(v + j) % 4]) if np.iscomplexobj(C) else float(v)
        self.C = C
        self.shifts = None
        if affine:
            sh = np.zeros(6, dtype=C.dtype)
            for j in range(1 + ds.choose(4, "shift.n")):
                sh[ds.choose(6, f"shift[{j}].i")] = float(SMALL[ds.choose(6, f"shift[{j}].v")])
            if shape == "zero_row" and ds.flag("shift.on_every_zero_row", 0.6):
                for i in range(6):
                    if not C[i].any():
                        sh[i] = float(SMALL[(i + 2) % 6])
            self.shifts = sh
        self.desc.update(max_deg=self.max_deg, C_complex=bool(np.iscomplexobj(C)))

    def _gen_reduced_monomial(self):
        ds = self.ds
        cl = "small" if self.cls in ("large", "float", "tiny") else self.cls
        self.cls, self.exact = cl, False
        self.k = np.array([ds.choose(4, f"k[{i}]") for i in range(6)], dtype=np.int64)
        self.point = self._point(cl)
        self.var = ds.choose(6, "var")
        self.exp_change = ds.pick([0, -1, 1], "exp_change")
        if self.k[self.var] + self.exp_change < 0:
            self.exp_change = 0

    def _gen_subst_coords(self):
        ds = self.ds
        cl = "small" if self.cls in ("large", "float", "tiny") else self.cls
        self.cls, self.exact = cl, True
        self.C = np.array([[_val(cl, self.cplx, ds.choose(10, f"M[{i}][{j}]"), i + j) if ds.flag(f"M[{i}][{j}].nz", 0.4) else 0.0
                            for j in range(6)] for i in range(6)], dtype=np.complex128 if self.cplx else np.float64)
        self.point = np.array([_val(cl, True, ds.choose(10, f"pt[{i}]"), i) for i in range(6)], dtype=np.complex128)

    def _gen_substitute_linear(self):
        self._subst(False)

    def _gen_substitute_affine(self):
        self._subst(True)

    def fscale(self) -> float:
        """Magnitude of the terms that are summed into one coefficient (float class only): the comparison with the
        rational model is relative to this, so that cancellation is not mistaken for an error."""
        if self.exact:
            return 0.0
        A, n = 0.0, 0
        for name in ("p", "q"):
            a = getattr(self, name, None)
            if a is not None and a.size:
                A, n = max(A, float(np.max(np.abs(a)))), n + int(np.count_nonzero(a))
        for name in ("P", "Q"):
            L = getattr(self, name, None)
            if L is not None:
                for a in L:
                    a = np.asarray(a)
                    if a.size:
                        A, n = max(A, float(np.max(np.abs(a)))), n + int(np.count_nonzero(a))
        return 64.0 * max(A, 1.0) ** 2 * max(n, 1)

    # ---- cost guard for the simulator
    def sim_cost(self) -> int:
        op = self.op
        if op in ("mul",):
            return int(np.count_nonzero(self.p)) * int(np.count_nonzero(self.q)) + self.p.size
        if op == "poisson":
            return 6 * self.p.size + 6 * self.q.size + 6 * int(np.count_nonzero(self.p)) * int(np.count_nonzero(self.q))
        if op in ("diff",):
            return self.p.size
        if op in ("multiply", "poisson_bracket"):
            c = 0
            for a in self.P:
                for b in self.Q:
                    c += int(np.count_nonzero(a)) * int(np.count_nonzero(b)) * (6 if op == "poisson_bracket" else 1) + a.size
            return c
        if op == "power":
            tot = sum(int(np.count_nonzero(a)) for a in self.P)
            return (tot ** 2) * max(1, self.k) * 4
        if op in ("differentiate", "jacobian"):
            return sum(a.size for a in self.P) * (6 if op == "jacobian" else 1)
        if op.startswith("substitute"):
            return 3000
        return 0

    # ---- execution in a namespace
    def run(self, f):
        op = self.op
        cp = lambda L: _copy_list(L)
        if op == "mul":
            return f("_poly_mul")(self.p.copy(), self.dp, self.q.copy(), self.dq, PSI, CLMO, ENC)
        if op == "poisson":
            return f("_poly_poisson")(self.p.copy(), self.dp, self.q.copy(), self.dq, PSI, CLMO, ENC)
        if op == "add":
            out = np.zeros_like(self.p)
            f("_poly_add")(self.p.copy(), self.q.copy(), out)
            return out
        if op == "scale":
            out = np.zeros_like(self.p)
            f("_poly_scale")(self.p.copy(), self.alpha, out)
            return out
        if op == "diff":
            return f("_poly_diff")(self.p.copy(), self.var, self.dp, PSI, CLMO, ENC)
        if op == "integrate":
            return f("_poly_integrate")(self.p.copy(), self.var, self.dp, PSI, CLMO, ENC)
        if op == "evaluate":
            return f("_poly_evaluate")(self.p.copy(), self.dp, self.point.copy(), CLMO)
        if op == "multiply":
            return f("_polynomial_multiply")(cp(self.P), cp(self.Q), self.max_deg, PSI, CLMO, ENC)
        if op == "poisson_bracket":
            return f("_polynomial_poisson_bracket")(cp(self.P), cp(self.Q), self.max_deg, PSI, CLMO, ENC)
        if op == "power":
            return f("_polynomial_power")(cp(self.P), self.k, self.max_deg, PSI, CLMO, ENC)
        if op == "differentiate":
            return f("_polynomial_differentiate")(cp(self.P), self.var, self.max_deg, PSI, CLMO, PSI, CLMO, ENC)
        if op == "jacobian":
            return f("_polynomial_jacobian")(cp(self.P), self.max_deg, PSI, CLMO, ENC)
        if op == "l_integrate":
            return f("_polynomial_integrate")(cp(self.P), self.var, self.max_deg, PSI, CLMO, PSI, CLMO, ENC)
        if op == "l_evaluate":
            return f("_polynomial_evaluate")(cp(self.P), self.point.copy(), CLMO)
        if op == "add_inplace":
            A = cp(self.P)
            f("_polynomial_add_inplace")(A, cp(self.Q), self.scale, self.lim)
            return A
        if op == "subst_coords":
            return COORDS._substitute_coordinates(self.point.copy(), self.C.copy())
        if op == "reduced_monomial":
            return ALG._evaluate_reduced_monomial(self.k.copy(), self.point.copy(), int(self.var), int(self.exp_change))
        if op == "substitute_linear":
            return f("_substitute_linear")(cp(self.P), self.C.copy(), self.max_deg, PSI, CLMO, ENC)
        if op == "substitute_affine":
            return f("_substitute_affine")(cp(self.P), self.C.copy(), self.shifts.copy(), self.max_deg, PSI, CLMO, ENC)
        raise AssertionError(op)

    def entry(self) -> str:
        return {"mul": "_poly_mul", "poisson": "_poly_poisson", "add": "_poly_add", "scale": "_poly_scale", "diff": "_poly_diff",
                "integrate": "_poly_integrate", "evaluate": "_poly_evaluate", "multiply": "_polynomial_multiply",
                "poisson_bracket": "_polynomial_poisson_bracket", "power": "_polynomial_power",
                "differentiate": "_polynomial_differentiate", "jacobian": "_polynomial_jacobian",
                "l_integrate": "_polynomial_integrate", "l_evaluate": "_polynomial_evaluate",
                "add_inplace": "_polynomial_add_inplace", "subst_coords": "_poly_add", "reduced_monomial": "_poly_add", "substitute_linear": "_substitute_linear",
                "substitute_affine": "_substitute_affine"}[self.op]

    # ---- the exact expected result and the comparison
    def check(self, got, vprefix: str, what: str):
        op, ex = self.op, self.exact
        if op in ("mul", "poisson", "add", "scale", "diff", "integrate"):
            p = block_to_poly(self.p, self.dp)
            if op == "mul":
                exp, d = pm.mul(p, block_to_poly(self.q, self.dq)), self.dp + self.dq
            elif op == "poisson":
                exp, d = pm.poisson(p, block_to_poly(self.q, self.dq)), self.dp + self.dq - 2
            elif op == "add":
                exp, d = pm.add(p, block_to_poly(self.q, self.dp)), self.dp
            elif op == "scale":
                exp, d = {k: v * pm.GQ.of(self.alpha) for k, v in p.items()}, self.dp
            elif op == "diff":
                exp, d = pm.diff(p, self.var), max(self.dp - 1, 0)
                if self.dp == 0:
                    exp = {}
            else:
                exp, d = pm.integrate(p, self.var), self.dp + 1
                ex = False
            cmp_block(got, exp, d, ex, what, vprefix, self.fscale())
            return
        if op in ("evaluate", "l_evaluate"):
            p = block_to_poly(self.p, self.dp) if op == "evaluate" else list_to_poly(self.P)
            exp = complex(pm.evaluate(p, [complex(x) for x in self.point]))
            mag = sum(abs(complex(v)) * float(np.prod([abs(x) ** e for x, e in zip(self.point, k)])) for k, v in p.items())
            if abs(complex(got) - exp) > 1e-12 * max(mag, 1e-300) + 1e-300:
                raise Violation(vprefix, f"{what}: value {complex(got)} != exact {exp} (sum of |terms| {mag:.3e})")
            return
        if op == "reduced_monomial":
            e = [int(self.k[i]) + (int(self.exp_change) if i == self.var else 0) for i in range(6)]
            exp = complex(pm.evaluate({tuple(e): pm.GQ(1)}, [complex(x) for x in self.point]))
            if abs(complex(got) - exp) > 1e-12 * max(1.0, abs(exp)):
                raise Violation(vprefix, f"{what}: _evaluate_reduced_monomial(k={self.k.tolist()}, var={self.var}, change={self.exp_change}) at {self.point.tolist()} "
                                         f"returned {complex(got)}, the monomial's value is {exp}")
            return
        if op == "subst_coords":
            exp = np.array([complex(sum((pm.GQ.of(complex(self.C[i, j])) * pm.GQ.of(complex(self.point[j])) for j in range(6)), pm.GQ())) for i in range(6)])
            if not np.array_equal(np.asarray(got, dtype=np.complex128), exp):
                raise Violation(vprefix, f"{what}: _substitute_coordinates returned {np.asarray(got).tolist()}, exact matrix-vector product is {exp.tolist()}")
            return
        P = list_to_poly(self.P)
        md = self.max_deg
        if op == "multiply":
            cmp_list(got, pm.mul(P, list_to_poly(self.Q), md), md, ex, what, vprefix, self.fscale())
        elif op == "poisson_bracket":
            cmp_list(got, pm.poisson(P, list_to_poly(self.Q), md), md, ex, what, vprefix, self.fscale())
        elif op == "power":
            cmp_list(got, pm.power(P, self.k, md), md, ex, what, vprefix, self.fscale())
        elif op == "differentiate":
            res, dmax = got
            want = max(md - 1, 0)
            if int(dmax) != want:
                raise Violation(f"{vprefix}-shape", f"{what}: derivative max degree {dmax}, expected {want}")
            cmp_list(res, pm.truncate(pm.diff(P, self.var), want), want, ex, what, vprefix, self.fscale())
        elif op == "jacobian":
            if len(got) != 6:
                raise Violation(f"{vprefix}-shape", f"{what}: jacobian has {len(got)} entries, expected 6")
            want = max(md - 1, 0)
            for v in range(6):
                cmp_list(got[v], pm.truncate(pm.diff(P, v), want), want, ex, f"{what} [d/dx{v}]", vprefix, self.fscale())
        elif op == "l_integrate":
            res, dmax = got
            if int(dmax) != md + 1:
                raise Violation(f"{vprefix}-shape", f"{what}: integral max degree {dmax}, expected {md + 1}")
            cmp_list(res, pm.integrate(P, self.var), md + 1, False, what, vprefix, self.fscale())
        elif op == "add_inplace":
            Q = list_to_poly(self.Q)
            top = len(self.P) - 1
            lim = top if self.lim == -1 else self.lim
            Qt = pm.truncate(Q, lim)
            cmp_list(got, pm.add(P, Qt, Fraction(self.scale)), top, ex, what, vprefix, self.fscale())
        elif op in ("substitute_linear", "substitute_affine"):
            C = [[complex(self.C[i, j]) for j in range(6)] for i in range(6)]
            sh = None if self.shifts is None else [complex(s) for s in self.shifts]
            cmp_list(got, pm.substitute(P, C, sh, md), md, ex, what, vprefix, self.fscale(), clean_tol=1e-14 if self.rescaled else 0.0)
        else:
            raise AssertionError(op)

    def digest_inputs(self) -> str:
        import hashlib
        h = hashlib.sha256()
        for name in ("p", "q", "point", "C", "shifts"):
            a = getattr(self, name, None)
            if a is not None:
                h.update(np.ascontiguousarray(a).tobytes())
        for name in ("P", "Q"):
            L = getattr(self, name, None)
            if L is not None:
                for a in L:
                    h.update(np.ascontiguousarray(np.asarray(a)).tobytes())
        h.update(repr(sorted(self.desc.items())).encode())
        return h.hexdigest()[:16]


def _copy_list(L):
    out = _TL()
    for a in L:
        out.append(np.asarray(a).copy())
    return out


def _compiled(name: str):
    return getattr(OPS, name, None) or getattr(ALG, name)


def _simulated(name: str):
    d = _compiled(name)
    return SIM.fn(d) if SIM.has(d) else d


NTS = [2, 3, 4, 1, 5, 8, 16, 7, 13]


def execute(ctx: RunCtx) -> None:
    ds, log = ctx.ds, ctx.log
    if ds.flag("prior_call_in_same_run", 0.25):
        # call history: another operation (other degrees / dtype / thread count) first, on the compiled and on the simulated
        # path -- a buffer or table kept between calls would make the checked call below depend on it
        prior = Case(ds)
        log.add("prior", prior.desc)
        ctx.probe("prior_call")
        try:
            if prior.entry() not in ABORTING:
                prior.check(prior.run(_compiled), f"C06/value-{prior.op}", f"compiled {prior.entry()} on {prior.desc}")
            if SIM.has(_compiled(prior.entry())) and prior.sim_cost() <= SIM_MAX_PAIR:
                SIM.begin_run(ds, ds.pick(NTS, "prior.nT"), "static", "serial", 1)
                prior.run(_simulated)
        except Violation:
            raise
        except Exception as e:
            raise Violation(f"C06/value-{prior.op}-raised", f"{prior.entry()} raised {type(e).__name__}: {e}")
    case = Case(ds)
    ind = case.digest_inputs()
    log.add("case", case.desc, ind)
    ctx.sample = {"case": case.desc}
    # 1. the compiled function against the exact model (not when calling it aborts the process: reported by the canary leg)
    if case.entry() in ABORTING:
        ctx.probe("compiled_call_would_abort_skipped")
    else:
        try:
            got_c = case.run(_compiled)
        except Violation:
            raise
        except Exception as e:
            raise Violation(f"C06/value-{case.op}-raised", f"compiled {case.entry()} raised {type(e).__name__}: {e}")
        case.check(got_c, f"C06/value-{case.op}", f"compiled {case.entry()} on {case.desc}")
        ctx.steps += 1
    # 2. the same operation from source under a simulated schedule
    entry = _compiled(case.entry())
    if not SIM.has(entry):
        ctx.probe("op_without_parallel_region")
        ctx.sig_parts = [case.desc, ind, "compiled-only"]
        log.add("compiled-only")
        return
    if case.sim_cost() > SIM_MAX_PAIR:
        ctx.probe("too_large_for_simulator")
        ctx.sig_parts = [case.desc, ind, "compiled-only"]
        log.add("compiled-only-large")
        return
    nT = ds.pick(NTS, "nT")
    partition = ds.pick(["static", "arbitrary", "chunked"], "partition", (0.5, 0.3, 0.2))
    chunk = ds.pick([1, 2, 3, 7], "chunksize") if partition == "chunked" else 1
    policy = ds.pick(["rmw", "runs", "pct", "perm", "round_robin", "reverse", "serial"], "policy",
                     (0.35, 0.2, 0.15, 0.08, 0.1, 0.06, 0.06))
    SIM.begin_run(ds, nT, partition, policy, chunk)
    try:
        got_s = case.run(_simulated)
    except Violation:
        raise
    except IndexError as e:
        raise Violation("C06/out-of-bounds-access", f"simulated {case.entry()} (nT={nT}) indexed outside an array: {e}")
    sched = {"nT": nT, "partition": partition, "chunk": chunk, "policy": policy, "steps": SIM.steps, "switches": SIM.switches,
             "rmw_window_preempted": SIM.rmw_preempted}
    ctx.steps += SIM.steps
    sig = SIM.signature()
    log.add("sim", nT, partition, chunk, policy, SIM.steps, SIM.switches, sig)
    ctx.sample["schedule"] = sched
    ctx.sig_parts = [case.desc, ind, sig]
    ctx.nontrivial = SIM.switches >= 1 and nT >= 2
    if SIM.rmw_preempted:
        ctx.probe("rmw_window_preempted", SIM.rmw_preempted)
    if SIM.same_slot_concurrent:
        ctx.probe("same_slot_concurrent", SIM.same_slot_concurrent)
    if SIM.threads_idle:
        ctx.probe("threads_idle", SIM.threads_idle)
    ctx.probe("policy_" + policy)
    ctx.probe("partition_" + partition)
    ctx.probe("sim_regions", SIM.regions)
    try:
        case.check(got_s, f"C06/schedule-{case.op}", f"{case.entry()} from source under simulated schedule {sched} on {case.desc}")
    except Violation as v:
        # trusted-base cross-check: the same source, one thread, serial
        SIM.begin_run(ds, 1, "static", "serial", 1)
        got_1 = case.run(_simulated)
        try:
            case.check(got_1, "x", "x")
        except Violation:
            raise RuntimeError(f"simulator infidelity: serial single-thread execution from source also differs from the model "
                               f"while the compiled function agrees ({v.message})")
        raise


LEGS = {"sim": execute}


# --------------------------------------------------------------------------- layout sweep (exhaustive, not simulation)
def layout_sweep(max_degree: int = 30) -> dict:
    import numba
    from math import comb

    enc_fn, dec_fn = BASE._encode_multiindex, BASE._decode_multiindex

    @numba.njit(cache=False)
    def enc_all(K, d, enc):
        out = np.empty(K.shape[0], dtype=np.int64)
        for i in range(K.shape[0]):
            out[i] = enc_fn(K[i], d, enc)
        return out

    @numba.njit(cache=False)
    def dec_all(n, d, clmo):
        out = np.empty((n, 6), dtype=np.int64)
        for i in range(n):
            k = dec_fn(i, d, clmo)
            for j in range(6):
                out[i, j] = k[j]
        return out

    def compositions(d, parts):
        if parts == 1:
            yield (d,)
            return
        for a in range(d + 1):
            for rest in compositions(d - a, parts - 1):
                yield (a,) + rest

    fill_fn, pack_fn = BASE._fill_exponents, BASE._pack_multiindex

    @numba.njit(cache=False)
    def fill_all(n, d, clmo):
        out = np.empty((n, 6), dtype=np.int64)
        for i in range(n):
            fill_fn(i, d, clmo, out[i])
        return out

    @numba.njit(cache=False)
    def pack_all(K):
        out = np.empty(K.shape[0], dtype=np.int64)
        for i in range(K.shape[0]):
            out[i] = np.int64(pack_fn(K[i]))
        return out

    enc2 = BASE._create_encode_dict_from_clmo(CLMO)   # the helper that rebuilds the inverse lookup from a table
    total = 0
    for d in range(max_degree + 1):
        K = np.array(list(compositions(d, 6)), dtype=np.int64)
        n = K.shape[0]
        if n != comb(d + 5, 5):
            raise RuntimeError("enumeration bug")
        if int(PSI[6, d]) != n or len(CLMO[d]) != n:
            raise Violation("C06/layout", f"degree {d}: table has {int(PSI[6, d])}/{len(CLMO[d])} slots for {n} monomials")
        slots = enc_all(K, d, ENC)
        if slots.min() < 0 or slots.max() >= n or len(np.unique(slots)) != n:
            bad = K[np.flatnonzero(slots < 0)[:1]] if slots.min() < 0 else None
            raise Violation("C06/layout", f"degree {d}: encode is not a bijection onto 0..{n - 1} (missing/duplicate slots; first unencodable {bad})")
        back = dec_all(n, d, CLMO)
        if not np.array_equal(back[slots], K):
            i = int(np.flatnonzero(np.any(back[slots] != K, axis=1))[0])
            raise Violation("C06/layout", f"degree {d}: decode(encode({K[i].tolist()})) = {back[slots[i]].tolist()}")
        filled = fill_all(n, d, CLMO)
        if not np.array_equal(filled, back):
            i = int(np.flatnonzero(np.any(filled != back, axis=1))[0])
            raise Violation("C06/layout", f"degree {d}, slot {i}: _fill_exponents gives {filled[i].tolist()}, _decode_multiindex gives {back[i].tolist()}")
        packed = pack_all(K)
        if not np.array_equal(packed, np.asarray(CLMO[d]).astype(np.int64)[slots]):
            i = int(np.flatnonzero(packed != np.asarray(CLMO[d]).astype(np.int64)[slots])[0])
            raise Violation("C06/layout", f"degree {d}: _pack_multiindex({K[i].tolist()}) = {int(packed[i])} differs from the table entry {int(CLMO[d][slots[i]])}")
        slots2 = enc_all(K, d, enc2)
        if not np.array_equal(slots2, slots):
            i = int(np.flatnonzero(slots2 != slots)[0])
            raise Violation("C06/layout", f"degree {d}: the encode table rebuilt by _create_encode_dict_from_clmo maps {K[i].tolist()} to {int(slots2[i])}, the global one to {int(slots[i])}")
        total += n
    return {"degrees": max_degree + 1, "multi_indices": total, "exhaustive": True}


_REALBIN: list = []


def _abort_message() -> str:
    return (f"calling {sorted(ABORTING)} aborts the interpreter under numba's workqueue threading layer (\"Concurrent access has been detected\"): "
            f"a parallel kernel launches another parallel region from inside its prange loop, so under that layer -- the one numba falls "
            f"back to when neither TBB nor OpenMP is available -- no result is returned for any thread count")


def _execute_canary(ctx: RunCtx) -> None:
    if ABORTING:   # determined by warmup() in this very process, through the sacrificial interpreter
        raise Violation("C06/abort-nested-parallel-region", _abort_message())


LEGS["canary"] = _execute_canary


def pre_phases(report, cfg, procs):
    # start the real-binary legs first: they run in fresh interpreters while the simulation runs
    here = Path(__file__).resolve().parent.parent
    for layer in ("omp", "workqueue"):
        env = dict(os.environ, NUMBA_THREADING_LAYER=layer, PYTHONHASHSEED="0", OMP_WAIT_POLICY="PASSIVE", GOMP_SPINCOUNT="0")
        env.pop("NUMBA_NUM_THREADS", None)
        p = subprocess.Popen([sys.executable, "-m", "sims.realbin_c06", str(report.seed), str(cfg["realbin_cases"]), str(cfg["realbin_reps"])],
                             cwd=str(here), env=env, stdout=subprocess.PIPE, stderr=subprocess.PIPE, text=True)
        _REALBIN.append((layer, p))
    t = time.monotonic()
    try:
        res = layout_sweep(30)
    except Violation as v:
        from simkit.run import RunResult
        r = RunResult(verdict="violation", vclass=v.vclass, message=v.message)
        payload = {"values": [], "decisions": [], "events": [], "vclass": v.vclass, "message": v.message, "digest": None,
                   "minimise": {"tests": 0}, "original_len": 0, "sample": {"phase": "layout_sweep"}}
        report.violations.append((("values", "layout", "layout"), r, payload))
        return
    res["wall_s"] = round(time.monotonic() - t, 2)
    report.extra["layout_sweep"] = res
    report.evaluations += res["multi_indices"]
    report.extra["simulated_functions"] = {"parallel_kernels": SIM.kernels, "callers_run_from_source": SIM.callers}


def _execute_layout(ctx: RunCtx) -> None:
    layout_sweep(30)


LEGS["layout"] = _execute_layout


def post_phases(report, cfg, procs):
    out = {}
    # reported after the simulated search (which runs the affected functions from source and may already have found a race in them)
    if ABORTING:
        from simkit.run import RunResult
        r = RunResult(verdict="violation", vclass="C06/abort-nested-parallel-region", message=_abort_message())
        payload = {"values": [], "decisions": [], "events": [], "vclass": r.vclass, "message": r.message, "digest": None,
                   "minimise": {"tests": 0}, "original_len": 0, "sample": {"phase": "canary", "aborting": sorted(ABORTING)}}
        report.violations.append((("values", "canary", "canary"), r, payload))
    for layer, p in _REALBIN:
        try:
            so, se = p.communicate(timeout=1500)
        except subprocess.TimeoutExpired:
            p.kill()
            report.harness_errors.append(("realbin-timeout", layer))
            continue
        line = [l for l in so.splitlines() if l.startswith("REALBIN ")]
        if p.returncode not in (0, 1) or not line:
            if layer == "workqueue" and ABORTING and "threading layer is terminating" in se:
                out[layer] = {"aborted": "nested parallel region, reported by the canary leg"}
                continue
            report.harness_errors.append(("realbin-crashed", f"{layer}: rc={p.returncode} {se[-1500:]}"))
            continue
        doc = json.loads(line[-1][len("REALBIN "):])
        out[layer] = {k: v for k, v in doc.items() if k != "mismatches"}
        report.evaluations += doc["executions"]
        for m in doc["mismatches"][:1]:
            from simkit.run import RunResult
            msg = (f"real binary, threading layer {layer}, {m['threads']} threads, chunksize {m['chunksize']}: {m['what']} "
                   f"(OS-scheduled: this replay re-runs the same inputs and thread configuration and may need repetitions)")
            r = RunResult(verdict="violation", vclass="C06/realbin-" + m["op"], message=msg)
            payload = {"values": m["values"], "decisions": [], "events": [], "vclass": r.vclass, "message": msg, "digest": None,
                       "minimise": {"tests": 0}, "original_len": len(m["values"]),
                       "no_verify": True,
                       "sample": {"phase": "realbin", "layer": layer, "threads": m["threads"], "chunksize": m["chunksize"]}}
            report.violations.append((("values", f"realbin-{layer}", "realbin"), r, payload))
    report.extra["real_binary_leg"] = out
    _REALBIN.clear()


def _execute_realbin(ctx: RunCtx) -> None:
    """Replay of a real-binary mismatch: same inputs, all thread counts, in this process (layer from the environment)."""
    from sims import realbin_c06
    case = Case(ctx.ds)
    bad = realbin_c06.sweep_case(case, reps=20)
    if bad:
        raise Violation("C06/realbin-" + case.op, bad[0]["what"])


LEGS["realbin"] = _execute_realbin
