"""C05 -- a successful correction yields a periodic orbit; failures are loud (DESIGN.md 3.5).

Leg "solver": the real _NewtonBackend with the real Armijo / plain steppers on a parametric family of
smooth maps with known roots, with fail-stop faults (raise / NaN / Inf; singular, rank-deficient, NaN,
raising Jacobians) injected at chosen evaluations -- inside the line search, at the top of an iteration,
inside the finite-difference Jacobian, at the final post-loop evaluation.
Leg "orbit": the real orbit correction (halo / Lyapunov / vertical at L1/L2) with the same injector
spliced in front of the real single-shooting residual/Jacobian, closed with an independent integrator.
"""
from __future__ import annotations

import dataclasses
import math

import numpy as np

from simkit.decisions import fhex
from simkit.run import RunCtx, Violation

PROPERTY = "C05"
LEVEL = "exploration"
DEFAULT_LEG = "solver"

RULE = ("solver leg: each run draws a smooth residual map with a known root (affine well/ill-conditioned, quadratic, tanh-saturated, cubic with "
        "singular Jacobian at the root, rectangular over/under-determined; 1-3 unknowns), a start point, tol 1e-4..1e-13, max_attempts 0..25, "
        "max_delta None..5, Armijo (drawn alpha_reduction/min_alpha/armijo_c) or plain stepper, analytic or finite-difference Jacobian, and 0-3 "
        "fault events (phase: line-search trial / top of iteration / inside FD Jacobian / final evaluation / Jacobian call; occurrence; kind), "
        "then runs the REAL _NewtonBackend.run; the recorded history of evaluations and iterates is judged by S1 (returns => fault-free residual "
        "< tol and reported norm equals it), S2 (Armijo: residual norms of successive iterates never increase), S3 (no update exceeds max_delta), "
        "S4 (no faulted value is an accepted iterate's value), S5 (termination bound; on affine maps with recoverable line-search faults the run "
        "must converge). orbit leg: real orbit.correct() with the injector spliced into _NewtonBackend.run; success => closes under an independent "
        "scipy DOP853 propagation within 50*||M||*max(tol,1e-12), constraint residual at T/2 below bound, period == 2*half_period; failure => "
        "orbit state and period unchanged. Histories: the backend and stepper factory may already have solved another problem (other cap / norm / "
        "tolerance) or the same problem through the identical residual / Jacobian / norm callables under another cap, tolerance and start; orbit objects may have a pre-history (loose-then-tight correction, rounded state and period, re-corrected or failed "
        "correction followed by an edit of a non-control component, a converged state carrying another orbit's period), a step cap differing "
        "between pre-history and judged call, a finite-difference Jacobian configuration, backward correction, a failing half-period event. "
        "A run is non-trivial iff >= 1 fault fired; distinct = distinct (configuration, fault schedule) digests.")
ASSUMPTIONS = [
    "only fail-stop faults are injected (raise, NaN, Inf, singular/NaN/raising Jacobian): a residual function that silently returns a wrong finite number cannot be survived by any solver",
    "'all smooth residual maps' is sampled from a parametric family, not enumerated; for the fault-free clause the check is no stronger than a seeded property test (the evidence reports the share of runs with a fault fired)",
    "any exception type counts as 'raises an error' (a residual that raises at the top of an iteration propagates its own exception today)",
    "orbit closure bound scales with the monodromy norm from the same independent integration (these orbits are unstable)",
]
COMPONENTS = {
    "real": ["corrector/backends/newton.py, backends/base.py (_solve_delta_dense, FD Jacobian)", "corrector/stepping/armijo.py, plain.py, factories",
             "orbit leg: corrector/interfaces.py, operators.py, engine, types/services/orbits.py correct/apply_correction, singlehit event detection, integrators"],
    "stub": ["solver leg: the residual map and its analytic Jacobian (known-root test family)", "the fault injector wrapped around residual_fn / jacobian_fn"],
}
TIERS = {
    "quick": {"budget_s": 50.0, "max_runs": 2_000_000, "chunk": 200, "run_timeout": 300.0, "min_budget": 30.0, "orbit_runs": 100000, "orbit_budget_s": 60.0},
    "thorough": {"budget_s": 600.0, "max_runs": 50_000_000, "chunk": 500, "run_timeout": 300.0, "min_budget": 60.0, "orbit_runs": 10000000, "orbit_budget_s": 900.0},
}

_NB = _CI = _mk_armijo = _mk_plain = None
ORB: dict = {}
KNOWN: dict = {}


def warmup(tier: str) -> None:
    global _NB, _CI, _mk_armijo, _mk_plain
    if _NB is not None:
        return
    from hiten.algorithms.corrector.backends.newton import _NewtonBackend
    from hiten.algorithms.corrector.stepping import make_armijo_stepper, make_plain_stepper
    from hiten.algorithms.corrector.types import CorrectorInput
    _NB, _CI, _mk_armijo, _mk_plain = _NewtonBackend, CorrectorInput, make_armijo_stepper, make_plain_stepper
    from simkit.driver import load_known
    KNOWN.update(load_known(PROPERTY))
    if TIERS[tier]["orbit_runs"] > 0:
        _warm_orbits(tier)


# --------------------------------------------------------------------------- the fault injector
PHASES = ["ls", "top", "fd", "final", "jac"]
RKINDS = ["raise", "nan", "inf"]
JKINDS = ["raise", "nan", "singular", "rank1"]


class Injector:
    """Wraps residual_fn / jacobian_fn; phase is tracked through wrappers around the backend's own hooks."""

    def __init__(self, ctx, R, J, faults, n_out):
        self.ctx, self.R, self.J, self.faults = ctx, R, J, dict(faults)
        self.phase = "ls"
        self.count = {p: 0 for p in PHASES}
        self.evals = 0
        self.history = []          # (phase, x, value-norm | fault kind)
        self.fired = []
        self.n_out = n_out
        self.armed = True          # False: a pre-history solve of the same problem -- plain pass-through, nothing counted or faulted

    def residual(self, x):
        if not self.armed:
            if not np.all(np.isfinite(np.asarray(x, float))):
                return np.full(self.n_out, np.nan)
            return np.asarray(self.R(x), float)
        ph = self.phase
        k = self.count[ph]
        self.count[ph] += 1
        self.evals += 1
        if self.evals > 200000:
            raise Violation("C05/S5-termination", "more than 200000 residual evaluations in one correction")
        kind = self.faults.get((ph, k))
        if kind is not None:
            self.fired.append((ph, k, kind))
            self.ctx.fault(f"residual_{kind}@{ph}")
            self.history.append((ph, np.array(x, float), "fault:" + kind))
            if kind == "raise":
                raise RuntimeError("injected: residual evaluation failed")
            return np.full(self.n_out, np.nan if kind == "nan" else np.inf)
        if not np.all(np.isfinite(np.asarray(x, float))):
            # a non-finite argument (produced by an earlier NaN/Inf) is not handed to the real map: it fails stop
            self.ctx.probe("nonfinite_argument")
            return np.full(self.n_out, np.nan)
        v = np.asarray(self.R(x), float)
        self.history.append((ph, np.array(x, float), v))
        return v

    def jacobian(self, x):
        if not self.armed:
            if not np.all(np.isfinite(np.asarray(x, float))):
                raise FloatingPointError("non-finite argument to the Jacobian (fail-stop)")
            return np.asarray(self.J(x), float)
        k = self.count["jac"]
        self.count["jac"] += 1
        kind = self.faults.get(("jac", k))
        if not np.all(np.isfinite(np.asarray(x, float))):
            self.ctx.probe("nonfinite_argument")
            raise FloatingPointError("non-finite argument to the Jacobian (fail-stop)")
        Jv = np.asarray(self.J(x), float)
        if kind is not None:
            self.fired.append(("jac", k, kind))
            self.ctx.fault(f"jacobian_{kind}")
            if kind == "raise":
                raise RuntimeError("injected: Jacobian evaluation failed")
            if kind == "nan":
                return np.full_like(Jv, np.nan)
            if kind == "singular":
                return np.zeros_like(Jv)
            return np.outer(Jv[:, 0], np.ones(Jv.shape[1]))  # rank one
        return Jv


def instrument(backend, inj: Injector, max_attempts: int):
    """Phase tracking through the backend's own seams (instance attributes shadowing the methods)."""
    orig_res, orig_jac = backend._compute_residual, backend._compute_jacobian
    tops = {"n": 0}

    def compute_residual(x, residual_fn):
        inj.phase = "final" if tops["n"] >= max_attempts else "top"
        tops["n"] += 1
        try:
            return orig_res(x, residual_fn)
        finally:
            inj.phase = "ls"

    def compute_jacobian(x, residual_fn, jacobian_fn, fd_step):
        inj.phase = "fd"
        try:
            return orig_jac(x, residual_fn, jacobian_fn, fd_step)
        finally:
            inj.phase = "ls"

    backend._compute_residual = compute_residual
    backend._compute_jacobian = compute_jacobian
    iterates = []
    backend.on_iteration = lambda k, x, r: iterates.append(np.array(x, float))
    return iterates


# --------------------------------------------------------------------------- test family
AVALS = [0.0, 1.0, -1.0, 0.5, 2.0, -0.3]
XVALS = [0.0, 0.3, -0.7, 1.5, -2.0, 0.05]


def make_map(ds):
    n = 1 + ds.choose(3, "map.n")
    kind = ds.pick(["affine", "quad", "tanh", "cubic", "illcond", "over", "under"], "map.kind", (0.3, 0.15, 0.15, 0.1, 0.1, 0.1, 0.1))
    A = np.array([[AVALS[ds.choose(len(AVALS), f"map.A[{i}][{j}]")] for j in range(n)] for i in range(n)]) + 2.5 * np.eye(n)
    if kind == "illcond" and n > 1:
        A[-1] = A[0] * (1 + 1e-9) + 1e-9 * A[-1]
    xs = np.array([XVALS[ds.choose(len(XVALS), f"map.root[{i}]")] for i in range(n)])

    def F(x):
        x = np.asarray(x, float)
        if kind in ("affine", "illcond", "over", "under"):
            return A @ x
        if kind == "quad":
            return A @ x + 0.3 * x * x
        if kind == "tanh":
            return A @ np.tanh(x) + 0.5 * x
        return (x - xs) ** 3 + A @ xs  # cubic: singular Jacobian at the root

    def dF(x):
        x = np.asarray(x, float)
        if kind in ("affine", "illcond", "over", "under"):
            return A.copy()
        if kind == "quad":
            return A + np.diag(0.6 * x)
        if kind == "tanh":
            return A @ np.diag(1 - np.tanh(x) ** 2) + 0.5 * np.eye(n)
        return np.diag(3 * (x - xs) ** 2)

    F0 = F(xs)
    if kind == "over":
        G = np.vstack([np.eye(n), np.ones((1, n))])
        R = lambda x: G @ (F(x) - F0)
        J = lambda x: G @ dF(x)
        m = n + 1
    elif kind == "under" and n > 1:
        R = lambda x: (F(x) - F0)[: n - 1]
        J = lambda x: dF(x)[: n - 1]
        m = n - 1
    else:
        R = lambda x: F(x) - F0
        J = dF
        m = n
    return {"n": n, "m": m, "kind": kind, "R": R, "J": J, "root": xs, "A": A}


def draw_faults(ds, tag="fault"):
    nf = ds.choose(4, f"{tag}.count", (0.25, 0.4, 0.25, 0.1))
    faults = {}
    for i in range(nf):
        ph = ds.pick(PHASES, f"{tag}[{i}].phase", (0.45, 0.15, 0.1, 0.15, 0.15))
        occ = ds.pick([0, 1, 2, 3, 5, 8, 13], f"{tag}[{i}].occurrence", (0.3, 0.2, 0.15, 0.12, 0.1, 0.08, 0.05))
        kind = ds.pick(JKINDS, f"{tag}[{i}].kind") if ph == "jac" else ds.pick(RKINDS, f"{tag}[{i}].kind")
        faults[(ph, occ)] = kind
    return faults


def backtracks(min_alpha, red):
    return int(math.ceil(math.log(min_alpha) / math.log(red))) + 2


# --------------------------------------------------------------------------- oracles over the history
def judge(ctx, cfg, inj: Injector, iterates, outcome, R_clean, norm, what):
    tol, max_delta, armijo = cfg["tol"], cfg["max_delta"], cfg["armijo"]
    ret = outcome.get("x")
    # S1
    if ret is not None:
        x_ret = np.asarray(ret, float)
        true = float(norm(R_clean(x_ret))) if np.all(np.isfinite(x_ret)) else float("nan")
        if not (true < tol):
            raise Violation("C05/S1-unconverged-return", f"{what}: run() returned x={x_ret.tolist()} whose fault-free residual norm is {true:.3e} >= tol {tol:.1e} "
                                                         f"(reported residual_norm={outcome['res']!r}); faults fired: {inj.fired}")
        rep = outcome["res"]
        if not (abs(rep - true) <= 1e-12 * max(1.0, abs(true)) + 1e-300):
            raise Violation("C05/S1-reported-norm", f"{what}: reported residual_norm {rep!r} != fault-free norm {true!r} at the returned point; faults fired: {inj.fired}")
    # accepted iterates: the loop's x at every iteration top, plus the returned point
    xs = list(iterates) + ([np.asarray(ret, float)] if ret is not None else [])
    for a, b in zip(xs, xs[1:]):
        if np.array_equal(a, b):
            continue
        if not np.all(np.isfinite(a)):
            continue  # once an iterate is non-finite the run can only end in an exception (S1 covers a return)
        if not np.all(np.isfinite(b)):
            if armijo and np.isfinite(float(norm(R_clean(a)))):
                raise Violation("C05/S2-nonfinite-iterate-accepted", f"{what}: the line search accepted the non-finite point {b.tolist()} from {a.tolist()} "
                                                                     f"(fault-free residual norm {float(norm(R_clean(a))):.3e}): the norm did not decrease; faults fired: {inj.fired}")
            continue
        if max_delta is not None and not math.isinf(max_delta):
            step = float(np.max(np.abs(b - a)))
            if step > max_delta * (1 + 1e-9) + 1e-300:
                raise Violation("C05/S3-step-cap", f"{what}: update of size {step:.6e} exceeds max_delta {max_delta:.3e} (from {a.tolist()} to {b.tolist()}); faults fired: {inj.fired}")
        if armijo:
            na, nb = float(norm(R_clean(a))), float(norm(R_clean(b)))
            if np.isfinite(na) and np.isfinite(nb) and nb > na * (1 + 1e-12) + 1e-300:
                raise Violation("C05/S2-residual-increased", f"{what}: with line search the residual norm rose from {na:.6e} to {nb:.6e} between accepted iterates "
                                                             f"{a.tolist()} -> {b.tolist()}; faults fired: {inj.fired}")
    # S5: termination bound
    n = cfg["n"]
    per_iter = (backtracks(cfg["min_alpha"], cfg["alpha_red"]) if armijo else 1) + 2 * n + 2
    bound = (cfg["max_attempts"] + 1) * per_iter + 2
    if inj.evals > bound:
        raise Violation("C05/S5-termination", f"{what}: {inj.evals} residual evaluations, bound {bound}")


def execute_solver(ctx: RunCtx) -> None:
    ds, log = ctx.ds, ctx.log
    mp = make_map(ds)
    n = mp["n"]
    x0 = mp["root"] + np.array([ds.pick([0.1, -0.4, 1.7, -3.0, 1e-6, 0.0], f"x0[{i}]") for i in range(n)])
    cfg = {"n": n, "m": mp["m"], "kind": mp["kind"],
           "tol": 10.0 ** (-ds.pick([8, 4, 6, 10, 12, 13], "tol.exp")),
           "max_attempts": ds.pick([25, 0, 1, 2, 3, 8], "max_attempts"),
           "max_delta": ds.pick([None, 1e-2, 0.3, 5.0, 1e-3], "max_delta"),
           "armijo": ds.flag("stepper.armijo", 0.7),
           "alpha_red": ds.pick([0.5, 0.3, 0.8], "armijo.alpha_reduction"),
           "min_alpha": ds.pick([1e-4, 1e-2, 0.5], "armijo.min_alpha"),
           "armijo_c": ds.pick([0.1, 1e-4, 0.5], "armijo.c"),
           "analytic_jac": ds.flag("jacobian.analytic", 0.5),
           "inf_norm": ds.flag("norm.inf", 0.3)}
    faults = draw_faults(ds)
    norm = (lambda r: float(np.linalg.norm(r, ord=np.inf))) if cfg["inf_norm"] else (lambda r: float(np.linalg.norm(r)))
    inj = Injector(ctx, mp["R"], mp["J"], faults, mp["m"])
    factory = _mk_armijo(alpha_reduction=cfg["alpha_red"], min_alpha=cfg["min_alpha"], armijo_c=cfg["armijo_c"]) if cfg["armijo"] else _mk_plain()
    be = _NB(stepper_factory=factory)
    # the backend and its stepper factory are long-lived in real use (one pipeline per orbit): this run may be the
    # second problem they solve, after one with another step cap / norm / tolerance (drawn last: earlier replays stay aligned)
    if ds.flag("prior_run_on_same_backend", 0.3):
        pm = ds.pick([None, 5.0, 1e-3, 0.3, 1e-2], "prior.max_delta")
        pinf = ds.flag("prior.norm.inf", 0.5)
        ptol = 10.0 ** (-ds.pick([6, 12, 3], "prior.tol.exp"))
        pn = 1 + ds.choose(3, "prior.n")
        pA = 2.0 * np.eye(pn) + 0.25 * np.ones((pn, pn))
        pb = pA @ np.full(pn, 0.7)
        try:
            be.run(request=_CI(initial_guess=np.full(pn, ds.pick([3.0, -40.0, 0.7], "prior.x0")), residual_fn=lambda x: pA @ np.asarray(x, float) - pb,
                               jacobian_fn=(lambda x: pA.copy()) if ds.flag("prior.jacobian.analytic", 0.5) else None,
                               norm_fn=(lambda r: float(np.linalg.norm(r, ord=np.inf))) if pinf else None,
                               max_attempts=ds.pick([25, 1], "prior.max_attempts"), tol=ptol, max_delta=pm, fd_step=1e-8))
            ctx.probe("prior_run_converged")
        except Exception:
            ctx.probe("prior_run_raised")
        cfg["prior_run"] = {"max_delta": pm, "inf_norm": pinf, "tol": ptol, "n": pn}
    # ... or the very same problem (the same residual / Jacobian / norm callables, as a caller retrying with another step cap,
    # tolerance or starting point passes them) was solved on this backend just before; that solve is fault-free and not judged
    norm_arg = norm if cfg["inf_norm"] else None
    res_fn, jac_fn = inj.residual, (inj.jacobian if cfg["analytic_jac"] else None)   # one object each: both solves pass the identical callables
    if ds.flag("prior_run_same_callables", 0.25):
        sm = ds.pick([5.0, None, 1e-3, 0.3, 1e-2], "prior_same.max_delta")
        stol = 10.0 ** (-ds.pick([6, 12, 3], "prior_same.tol.exp"))
        sx0 = mp["root"] + np.array([ds.pick([0.5, -2.0, 1e-3], f"prior_same.x0[{i}]") for i in range(n)])
        inj.armed = False
        try:
            be.run(request=_CI(initial_guess=sx0, residual_fn=res_fn, jacobian_fn=jac_fn,
                               norm_fn=norm_arg, max_attempts=ds.pick([25, 2], "prior_same.max_attempts"), tol=stol, max_delta=sm, fd_step=1e-8))
            ctx.probe("prior_same_callables_converged")
        except Exception:
            ctx.probe("prior_same_callables_raised")
        finally:
            inj.armed = True
        cfg["prior_same"] = {"max_delta": sm, "tol": stol}
    iterates = instrument(be, inj, cfg["max_attempts"])
    req = _CI(initial_guess=x0.copy(), residual_fn=res_fn, jacobian_fn=jac_fn,
              norm_fn=norm_arg, max_attempts=cfg["max_attempts"], tol=cfg["tol"], max_delta=cfg["max_delta"], fd_step=1e-8)
    log.add("cfg", {k: (fhex(v) if isinstance(v, float) else v) for k, v in cfg.items()}, [fhex(v) for v in x0], sorted((k, v) for k, v in faults.items()))
    outcome = {}
    try:
        out = be.run(request=req)
        outcome = {"x": np.array(out.x_corrected, float), "res": float(out.residual_norm), "it": int(out.iterations)}
    except Violation:
        raise
    except Exception as e:
        outcome = {"exc": type(e).__name__}
    log.add("outcome", outcome.get("exc") or "returned", inj.evals, len(iterates), inj.fired)
    what = f"{cfg['kind']} map, n={n}, m={mp['m']}, {'Armijo' if cfg['armijo'] else 'plain'} stepper, tol={cfg['tol']:.0e}, max_attempts={cfg['max_attempts']}, " \
           f"max_delta={cfg['max_delta']}, {'analytic' if cfg['analytic_jac'] else 'FD'} Jacobian, x0={x0.tolist()}"
    ctx.steps += inj.evals
    ctx.nontrivial = bool(inj.fired)
    ctx.sig_parts = [cfg, [fhex(v) for v in x0], [fhex(float(v)) for v in mp["A"].ravel()], sorted(map(str, inj.fired))]
    ctx.sample = {"leg": "solver", "config": cfg, "x0": x0.tolist(), "fault_schedule": [[list(k), v] for k, v in faults.items()],
                  "faults_fired": [list(f) for f in inj.fired], "outcome": outcome.get("exc") or "returned", "evaluations": inj.evals}
    ctx.probe("returned" if "x" in outcome else "raised")
    if inj.fired and "x" in outcome:
        ctx.probe("returned_despite_fault")
    judge(ctx, cfg, inj, iterates, outcome, mp["R"], norm, what)
    # S5 liveness: affine, square, well conditioned, no binding cap, only recoverable line-search faults, enough iterations
    if cfg["kind"] == "affine" and cfg["armijo"] and cfg["max_delta"] is None and all(f[0] == "ls" for f in inj.fired) \
            and set(faults) == set((f[0], f[1]) for f in inj.fired) and cfg["max_attempts"] >= len(inj.fired) + 3 \
            and cfg["min_alpha"] <= 0.01 and cfg["tol"] >= 1e-10 and np.linalg.cond(mp["A"]) < 1e3:
        ctx.probe("liveness_checked")
        if "x" not in outcome:
            raise Violation("C05/S5-liveness", f"{what}: only recoverable line-search faults {inj.fired} were injected on a well-conditioned affine map, "
                                               f"yet run() raised {outcome['exc']} instead of converging")


# --------------------------------------------------------------------------- orbit leg
OSPECS = [("em", 1, "halo", {"zenith": "southern"}, "amplitude_z", [0.2, 0.05, 0.1, 0.3]),
          ("em", 2, "halo", {"zenith": "northern"}, "amplitude_z", [0.15, 0.05, 0.25]),
          ("em", 1, "lyapunov", {}, "amplitude_x", [0.05, 0.01, 0.02, 0.08]),
          ("em", 2, "lyapunov", {}, "amplitude_x", [0.03, 0.01, 0.06]),
          ("em", 1, "vertical", {}, "amplitude_z", [0.1, 0.05, 0.2]),
          ("se", 1, "halo", {"zenith": "northern"}, "amplitude_z", [0.1, 0.05, 0.2]),
          ("se", 2, "lyapunov", {}, "amplitude_x", [0.01, 0.005, 0.02])]


def _warm_orbits(tier):
    import warnings
    warnings.filterwarnings("ignore")
    import numba
    numba.set_num_threads(1)
    from hiten import System
    ORB["sys"] = {"em": System.from_bodies("earth", "moon"), "se": System.from_bodies("sun", "earth")}
    for (s, p, fam, kw, an, amps) in OSPECS[:1] + OSPECS[5:6]:
        lp = ORB["sys"][s].get_libration_point(p)
        o = lp.create_orbit(fam, **dict(kw, **{an: amps[0]}))
        try:
            o.correct()
        except Exception:
            pass


def execute_orbit(ctx: RunCtx) -> None:
    from models import cr3bp_ref
    from hiten.system.libration.collinear import L1Point, L2Point
    ds, log = ctx.ds, ctx.log
    s, p, fam, kw, an, amps = OSPECS[ds.choose(len(OSPECS), "orbit.spec")]
    amp = ds.pick(amps, "orbit.amplitude")
    tol = 10.0 ** (-ds.pick([10, 8, 12, 6], "orbit.tol.exp"))
    max_attempts = ds.pick([50, 25, 3, 1, 8], "orbit.max_attempts", (0.45, 0.2, 0.1, 0.1, 0.15))
    faults = draw_faults(ds, "ofault")
    system = ORB["sys"][s]
    lp = {1: L1Point, 2: L2Point}[p](system)
    orbit = lp.create_orbit(fam, **dict(kw, **{an: amp}))
    # pre-history of the orbit object: the property speaks of every correction that reports success, not only the first
    # one on a fresh analytic seed
    pre = ds.pick(["none", "loose_1e-5_first", "loose_1e-4_first", "rounded_state_and_period", "recorrected_then_edited", "failed_then_edited",
                   "converged_state_stale_period"], "orbit.prehistory", (0.4, 0.15, 0.07, 0.12, 0.1, 0.08, 0.08))
    if pre.startswith("loose"):
        try:
            orbit.correct(orbit.correction_options.merge(**{"base.convergence.tol": 1e-5 if "1e-5" in pre else 1e-4, "base.convergence.max_delta": 0.5}))
        except Exception:
            pass
    elif pre == "rounded_state_and_period":
        try:
            o2 = lp.create_orbit(fam, **dict(kw, **{an: amp}))
            o2.correct()
            orbit = type(o2)(lp, initial_state=np.round(np.array(o2.initial_state, float), 7))
            orbit.period = round(float(o2.period), 7)
        except Exception:
            pre = "none"
    elif pre == "converged_state_stale_period":
        # an object built from a converged state that carries a period belonging to another orbit (what continuation does with
        # every new member, and what `orbit.period = guess; orbit.correct()` does): the correction has nothing to iterate on
        try:
            o2 = lp.create_orbit(fam, **dict(kw, **{an: amp}))
            o2.correct()
            orbit = type(o2)(lp, initial_state=np.array(o2.initial_state, float))
            orbit.period = float(o2.period) * 1.07
        except Exception:
            pre = "none"
    elif pre in ("recorrected_then_edited", "failed_then_edited"):
        # a converged orbit is corrected once more (nothing to write back) or a correction fails on it, then a component the
        # corrector does not vary is nudged in the live state array the object hands out ("change the amplitude and re-correct")
        try:
            orbit.correct()
            if pre == "recorrected_then_edited":
                orbit.correct()
            else:
                try:
                    orbit.correct(orbit.correction_options.merge(**{"base.convergence.tol": 1e-17, "base.convergence.max_attempts": 2}))
                except Exception:
                    pass
            ctrl = set(int(i) for i in orbit.correction_config.control_indices)
            live = orbit.initial_state
            free = [i for i in (2, 0, 4) if i not in ctrl and abs(float(live[i])) > 1e-6]
            if free:
                live[free[0]] *= 1.0005 if free[0] == 0 else 1.02
        except Exception:
            pre = "none"
            orbit = lp.create_orbit(fam, **dict(kw, **{an: amp}))
    ctx.probe("prehistory_" + pre)
    x_before, T_before = np.array(orbit.initial_state, float), orbit.period
    forward = ds.pick([1, -1], "orbit.forward", (0.75, 0.25))
    opts = orbit.correction_options.merge(**{"base.convergence.tol": tol, "base.convergence.max_attempts": max_attempts, "forward": forward})
    cfgd = {"sys": s, "point": p, "family": fam, an: amp, "tol": tol, "max_attempts": max_attempts, "prehistory": pre, "forward": forward}
    log.add("cfg", {k: (fhex(v) if isinstance(v, float) else v) for k, v in cfgd.items()}, sorted((k, v) for k, v in faults.items()))
    state = {}
    real_run = _NB.run

    def run_with_faults(self, *, request, stepper_factory=None):
        R = request.residual_fn
        J = request.jacobian_fn
        n_out = len(np.atleast_1d(R(np.array(request.initial_guess, float))))
        inj = Injector(ctx, R, J if J is not None else (lambda x: None), faults, n_out)
        iterates = instrument(self, inj, request.max_attempts)
        state.update(inj=inj, iterates=iterates, R=R, norm=request.norm_fn or (lambda r: float(np.linalg.norm(r))), req=request)
        req2 = dataclasses.replace(request, residual_fn=inj.residual, jacobian_fn=(inj.jacobian if J is not None else None))
        out = real_run(self, request=req2, stepper_factory=stepper_factory)
        state["out"] = out
        return out

    # fault at the half-period seam: the event detection that turns the converged state into a period fails
    from hiten.algorithms.corrector.interfaces import _OrbitCorrectionInterface
    hp_fault = ds.flag("ofault.half_period_event_fails", 0.12)
    max_delta = ds.pick([1e-2, 1e-3, 0.1], "orbit.max_delta", (0.6, 0.25, 0.15))   # drawn last: earlier replays stay aligned
    opts = opts.merge(**{"base.convergence.max_delta": max_delta})
    cfgd["max_delta"] = max_delta
    fd_jac = ds.flag("orbit.finite_difference_jacobian", 0.15)
    if fd_jac:
        # same problem, Jacobian by finite differences instead of the state-transition matrix (a documented configuration field)
        cc = orbit.correction_config
        orbit.correction_config = dataclasses.replace(cc, numerical=dataclasses.replace(cc.numerical, finite_difference=True))
        cfgd["finite_difference"] = True
        ctx.probe("orbit_fd_jacobian")
    log.add("cfg.max_delta", fhex(max_delta), fd_jac)
    real_create = _OrbitCorrectionInterface.create_problem

    def create_with_faulty_event(self, **kw):
        problem = real_create(self, **kw)
        if not hp_fault:
            return problem
        real_event = problem.event_func

        def failing_event(*a, **k):
            ctx.fault("half_period_event_raises")
            state["hp_fired"] = True
            raise RuntimeError("injected: plane-crossing detection failed")
        return dataclasses.replace(problem, event_func=failing_event)

    _OrbitCorrectionInterface.create_problem = create_with_faulty_event
    _NB.run = run_with_faults
    try:
        try:
            res = orbit.correct(opts)
            outcome = {"ok": True}
        except Violation:
            raise
        except Exception as e:
            outcome = {"exc": type(e).__name__, "msg": str(e)[:200]}
    finally:
        _NB.run = real_run
        _OrbitCorrectionInterface.create_problem = real_create
    if state.get("hp_fired") and "exc" not in outcome:
        raise Violation("C05/P1-half-period-fault-swallowed", f"{fam} orbit at {s} L{p}: the half-period event detection raised, yet correct() returned "
                                                              f"(period {orbit.period}); a failed period computation must not be reported as success")
    inj = state.get("inj")
    fired = inj.fired if inj else []
    what = f"{fam} orbit at {s} L{p}, {an}={amp}, tol={tol:.0e}, max_attempts={max_attempts}, forward={forward}, prehistory={pre}"
    ctx.nontrivial = bool(fired)
    ctx.steps += inj.evals if inj else 0
    ctx.sig_parts = [cfgd, sorted(map(str, fired))]
    ctx.sample = {"leg": "orbit", "config": cfgd, "fault_schedule": [[list(k), v] for k, v in faults.items()], "faults_fired": [list(f) for f in fired],
                  "outcome": outcome.get("exc") or "returned"}
    log.add("outcome", outcome.get("exc") or "returned", fired)
    if inj is not None:
        req = state["req"]
        scfg = {"tol": req.tol, "max_delta": req.max_delta, "armijo": True, "n": len(req.initial_guess), "max_attempts": req.max_attempts,
                "min_alpha": 1e-4, "alpha_red": 0.5}
        so = state.get("out")
        o2 = {"x": np.array(so.x_corrected, float), "res": float(so.residual_norm)} if so is not None else {"exc": "raised"}
        judge(ctx, scfg, inj, state["iterates"], o2, state["R"], state["norm"], what + " [backend level]")
    if "exc" in outcome:
        ctx.probe("orbit_raised")
        if not np.array_equal(np.array(orbit.initial_state, float), x_before) or orbit.period != T_before:
            raise Violation("C05/P1-failed-correction-changed-orbit", f"{what}: correct() raised {outcome['exc']} but the orbit changed: initial_state "
                                                                      f"{orbit.initial_state.tolist()} (was {x_before.tolist()}), period {orbit.period} (was {T_before}); faults: {fired}")
        return
    ctx.probe("orbit_returned")
    x, T = np.array(orbit.initial_state, float), float(orbit.period)
    if not np.all(np.isfinite(x)) or not np.isfinite(T) or T <= 0:
        raise Violation("C05/P1-nonfinite", f"{what}: correct() returned but initial_state={x.tolist()}, period={T}; faults: {fired}")
    if not np.array_equal(x, np.array(res.x_corrected, float)):
        raise Violation("C05/P1-state-not-applied", f"{what}: correct() returned x_corrected={np.array(res.x_corrected).tolist()} but orbit.initial_state is {x.tolist()} "
                                                    f"(prehistory: {pre})")
    if abs(T - 2.0 * float(res.half_period)) > 1e-12 * max(1.0, T):
        raise Violation("C05/P1-period", f"{what}: orbit.period={T!r} != 2*half_period={2.0 * float(res.half_period)!r}")
    if not (float(res.residual_norm) < tol):
        raise Violation("C05/S1-unconverged-return", f"{what}: correct() returned a result with residual_norm {float(res.residual_norm):.3e} >= tol {tol:.1e}; faults: {fired}")
    mu = float(system.mu)
    err, Mn, _ = cr3bp_ref.closure(mu, x, T)
    bound = 50.0 * max(Mn, 1.0) * max(tol, 1e-12)
    if err > bound and fam == "vertical" and KNOWN.get("C05-K1-vertical-family-correction-not-periodic"):
        ctx.note_known("C05-K1-vertical-family-correction-not-periodic")
        return
    if err > bound and forward == -1 and KNOWN.get("C05-K2-backward-correction-searches-the-crossing-forward"):
        ctx.note_known("C05-K2-backward-correction-searches-the-crossing-forward")
        return
    if err > bound:
        raise Violation("C05/P1-closure", f"{what}: independent DOP853 propagation of the returned state over the returned period misses the start by "
                                          f"{err:.3e} > 50*||M||*max(tol,1e-12) = {bound:.3e} (||M||={Mn:.3e}); faults: {fired}")
    cfgc = orbit.correction_config
    half = cr3bp_ref.half_period_crossing(mu, x, T)
    idx = [int(i) for i in cfgc.residual_indices]
    resid = float(np.max(np.abs(half[idx] - np.asarray(cfgc.target, float))))
    rb = 10.0 * max(Mn, 1.0) ** 0.5 * max(tol, 1e-11) + 1e-9
    if resid > rb:
        raise Violation("C05/P1-constraint", f"{what}: constraint residual at T/2 under the independent integrator is {resid:.3e} > {rb:.3e}; faults: {fired}")


LEGS = {"solver": execute_solver, "orbit": execute_orbit}


def post_phases(report, cfg, procs):
    if cfg["orbit_runs"] <= 0:
        return
    from simkit.driver import run_jobs
    import checks.c05 as me
    jobs = (("seed", i, "orbit") for i in range(cfg["orbit_runs"]))
    run_jobs(me, report, jobs, procs=procs, budget_s=cfg["orbit_budget_s"], chunk=2, run_timeout=600.0, min_budget=120.0, phase="orbit")
