"""C20 torus machine: an orbit and the invariant tori built on it; the orbit changes underneath the torus object."""
from __future__ import annotations

import numpy as np

from checks import c20 as base
from checks.c20 import attempt, brief, digest, eq, known_active, twin_memo
from simkit.run import RunCtx, Violation

M: dict = {}
VARIANTS = [{"epsilon": 1e-3, "n_theta1": 32, "n_theta2": 8, "method": "fixed", "order": 4},
            {"epsilon": 2e-3, "n_theta1": 32, "n_theta2": 8, "method": "fixed", "order": 4},
            {"epsilon": 1e-3, "n_theta1": 24, "n_theta2": 6, "method": "fixed", "order": 4}]
KINDS = [None]

ALPHABET = [("o_set_period", "x0.9"), ("o_set_period", "x1.1"), ("o_set_period", "orig"), ("o_correct",),
            ("m_compute", 0), ("m_compute", 1), ("m_compute", 2), ("m_trajectories",), ("m_refetch",), ("o_read", "monodromy"), ("m_save_load",)]
WEIGHTS = [1.0, 0.6, 0.8, 0.8, 2.0, 1.5, 1.0, 1.5, 0.5, 0.4, 0.5]
REDUCED = [("o_set_period", "x0.9"), ("o_correct",), ("m_compute", 0), ("m_compute", 1), ("m_trajectories",), ("m_refetch",)]


def warmup(U, tier):
    from hiten.system.libration.collinear import L1Point
    from hiten.system.orbits.halo import HaloOrbit
    lp = L1Point(U["sys_twin"]["em"])
    g = lp.create_orbit("halo", amplitude_z=0.2, zenith="southern")
    g.correct()
    M["x"], M["T"] = np.array(g.initial_state, float), float(g.period)
    M["cls"] = HaloOrbit
    for uni in ("sys_real", "sys_twin"):
        o = HaloOrbit(L1Point(U[uni]["em"]), initial_state=M["x"].copy())
        o.period = M["T"]
        from hiten.system.torus import InvariantTori
        InvariantTori(o).compute(**VARIANTS[0])
        o.correct()


def _orbit(U, uni, x, T):
    from hiten.system.libration.collinear import L1Point
    o = M["cls"](L1Point(U[uni]["em"]), initial_state=np.array(x, float))
    if T is not None:
        o.period = T
    return o


def _mk(orbit):
    from hiten.system.torus import InvariantTori
    return InvariantTori(orbit)


def _result(m):
    try:
        g = m.grid
    except ValueError:
        return None
    return {"n": int(np.asarray(g).shape[0]), "grid": np.array(g)}


def teq(a, b):
    return eq(a, b, rtol=1e-12, atol=1e-13)


def run_history(ctx: RunCtx, U) -> None:
    ds, log = ctx.ds, ctx.log
    stable, direction = None, None
    x, T = M["x"].copy(), M["T"]
    orbit = _orbit(U, "sys_real", x, T)
    man = _mk(orbit)
    last = None                 # (variant, x digest, T) of the last compute on `man`
    hist: list = []
    mutated = False
    max_len = 8 if ctx.tier == "quick" else 16
    log.add("objects", stable, direction)

    def fresh_result(vi, x, T):
        def f():
            tw = _orbit(U, "sys_twin", x, T)
            tm = _mk(tw)
            return attempt(lambda: (tm.compute(**VARIANTS[vi]), _result(tm))[1])
        return twin_memo(("torus", vi, x, T), f)

    while len(hist) < max_len:
        w = [0.08 if hist else 0.0] + WEIGHTS
        kk = ds.choose(len(ALPHABET) + 1, f"op[{len(hist)}]", w)
        if kk == 0:
            break
        op = ALPHABET[kk - 1]
        hist.append(tuple(op))
        k = op[0]
        if mutated and k.startswith("m_"):
            ctx.nontrivial = True
            ctx.probe("reads_after_mutation")
        if k == "o_set_period":
            v = {"x0.9": (T or M["T"]) * 0.9, "x1.1": (T or M["T"]) * 1.1, "orig": M["T"]}[op[1]]
            orbit.period = v
            T = v
            mutated = True
            log.add("op", op, "ok")
        elif k == "o_correct":
            t_out = twin_memo(("manifold-correct", x, T), lambda: _twin_correct(U, x, T))
            r_out = attempt(lambda: orbit.correct())
            if r_out.failed != t_out[0].failed:
                raise Violation("C20/torus/outcome-correct", f"orbit.correct(): {r_out.kind()} on the long-lived orbit, {t_out[0].kind()} on a fresh twin | history: {hist}")
            x, T = t_out[1], t_out[2]
            if not eq(np.array(orbit.initial_state), x) or not eq(orbit.period, T):
                raise Violation("C20/torus/orbit-state-after-correct", f"after correct(): state {brief(np.array(orbit.initial_state))}, period {orbit.period}; fresh twin "
                                                                         f"{brief(x)}, {T} | history: {hist}")
            mutated = True
            log.add("op", op, r_out.kind())
        elif k == "o_read":
            r_out = attempt(lambda: np.array(orbit.monodromy))
            t_out = twin_memo(("manifold-mono", x, T), lambda: attempt(lambda: np.array(_orbit(U, "sys_twin", x, T).monodromy)))
            if r_out.failed != t_out.failed or (not r_out.failed and not eq(r_out.value, t_out.value)):
                raise Violation("C20/torus/orbit-monodromy", f"orbit.monodromy differs from a fresh twin at x={brief(x)}, T={T} | history: {hist}")
            log.add("op", op, r_out.kind())
        elif k == "m_save_load":
            import os
            before = attempt(lambda: _result(man))
            path = base.tmp_path(f"dep_{len(hist)}.pkl")
            out = attempt(lambda: man.save(path))
            if out.failed:
                raise Violation("C20/torus/save-raised", f"save raised {out.kind()}: {out.exc} | history: {hist}")
            out = attempt(lambda: type(man).load(path))
            try:
                os.remove(path)
            except OSError:
                pass
            if out.failed:
                raise Violation("C20/torus/load-raised", f"load raised {out.kind()}: {out.exc} | history: {hist}")
            after = attempt(lambda: _result(out.value))
            log.add("op", op, "ok")
            ctx.probe("reload_then_continue")
            ob = attempt(lambda: (np.array(out.value.orbit.initial_state, float), out.value.orbit.period))
            if ob.failed or not eq(ob.value[0], x) or not eq(ob.value[1], T):
                raise Violation("C20/torus/roundtrip-orbit", f"after save/load the object's orbit has state/period {ob.value if not ob.failed else ob.kind()}, before the round trip "
                                                              f"{brief(x)}, {T} | history: {hist}")
            if not before.failed and before.value is not None and last is not None and eq(last[1], x) and eq(last[2], T):
                if after.failed or after.value is None or not teq(after.value, before.value):
                    raise Violation("C20/torus/roundtrip-result", f"the stored result of the last compute is lost or changed by save/load "
                                                                   f"({'unset' if (after.failed or after.value is None) else 'different'} after the round trip) | history: {hist}")
            break  # the reloaded object carries its own unpickled orbit and System: continuing would recompile every integrator
        elif k == "m_refetch":
            man = _mk(orbit)
            last = None
            log.add("op", op, "ok")
        elif k == "m_compute":
            vi = op[1]
            r_out = attempt(lambda: (man.compute(**VARIANTS[vi]), _result(man))[1])
            t_out = fresh_result(vi, x, T)
            log.add("op", op, r_out.kind(), digest(r_out.value) if not r_out.failed else None)
            if r_out.failed != t_out.failed:
                raise Violation("C20/torus/outcome-compute", f"manifold.compute(variant {vi}): {r_out.kind()} ({r_out.exc}) on the long-lived manifold, {t_out.kind()} "
                                                                f"on a fresh manifold of a fresh orbit in the same state | history: {hist}")
            if not r_out.failed and not teq(r_out.value, t_out.value):
                raise Violation("C20/torus/value-compute", f"torus.compute({VARIANTS[vi]}) on the long-lived torus object (orbit period {T}) gave grid "
                                                              f"{brief(r_out.value['grid'])}; a fresh InvariantTori of a fresh orbit in the same state gives "
                                                              f"{brief(t_out.value['grid'])} | history: {hist}")
            last = (vi, x.copy(), T)
            ctx.probe("torus_compared")
        elif k == "m_trajectories":
            r_out = attempt(lambda: _result(man))
            if r_out.failed or r_out.value is None:
                ctx.probe("torus_grid_unset")
                log.add("op", op, "unset")
                continue
            if last is None:
                raise Violation("C20/torus/stored-result", f"torus.grid holds {r_out.value['n']} trajectories although this manifold object has not computed anything | history: {hist}")
            vi, xl, Tl = last
            # two-sided: the stored result must be the last compute's result at the orbit's CURRENT state
            t_out = fresh_result(vi, x, T)
            if t_out.failed or not teq(r_out.value, t_out.value):
                same_as_then = (not eq(xl, x) or not eq(Tl, T)) and teq(r_out.value, fresh_result(vi, xl, Tl).value)
                if same_as_then and known_active("C20-K4-torus-stored-grid-survives-orbit-change"):
                    ctx.note_known("C20-K4-torus-stored-grid-survives-orbit-change")
                    continue
                raise Violation("C20/torus/stored-result", f"torus.grid is not the result of the last compute (variant {vi}) for the orbit's current state "
                                                              f"(period {T}; computed when the period was {Tl}) | history: {hist}")
            log.add("op", op, "stored", digest(r_out.value))
            ctx.probe("stored_result_compared")
    ctx.sig_parts = [stable, direction, hist]
    ctx.sample = {"machine": "torus", "objects": ["halo orbit + InvariantTori"], "history": [list(h) for h in hist]}
    ctx.steps += len(hist)


def _twin_correct(U, x, T):
    tw = _orbit(U, "sys_twin", x, T)
    out = attempt(lambda: tw.correct())
    return out, np.array(tw.initial_state, float), tw.period


def enumeration(max_len: int):
    import itertools
    idx = [ALPHABET.index(op) + 1 for op in REDUCED]
    for L in range(1, max_len + 1):
        for seq in itertools.product(idx, repeat=L):
            yield [3] + list(seq) + [0]   # machine=torus (3)
