"""Real-binary leg of C06 (bridge, not the decider): the compiled kernels under numba.set_num_threads(n)
and set_parallel_chunksize(c), in a fresh interpreter per threading layer.  The OS picks the interleaving."""
from __future__ import annotations

import json
import sys
import time

import numpy as np

THREADS = [2, 3, 5, 8, 13, 16]
CHUNKS = [0, 1, 7]


def _same(a, b) -> bool:
    if isinstance(a, tuple):
        return all(_same(x, y) for x, y in zip(a, b))
    if isinstance(a, np.ndarray):
        return np.array_equal(a, b)
    if hasattr(a, "__len__") and not np.isscalar(a):
        return len(a) == len(b) and all(_same(x, y) for x, y in zip(a, b))
    return a == b


def sweep_case(case, reps: int):
    import numba
    from checks import c06
    bad = []
    numba.set_num_threads(1)
    numba.set_parallel_chunksize(0)
    ref = case.run(c06._compiled)
    nmax = numba.config.NUMBA_NUM_THREADS
    n_exec = 0
    for n in THREADS:
        if n > nmax:
            continue
        for c in CHUNKS:
            numba.set_num_threads(n)
            numba.set_parallel_chunksize(c)
            for _ in range(reps):
                got = case.run(c06._compiled)
                n_exec += 1
                if not _same(got, ref):
                    bad.append({"op": case.op, "threads": n, "chunksize": c,
                                "what": f"{case.entry()} on {case.desc}: result with {n} threads differs from the 1-thread result"})
                    break
    numba.set_num_threads(1)
    numba.set_parallel_chunksize(0)
    sweep_case.executions = n_exec
    return bad


def main(seed: int, ncases: int, reps: int) -> int:
    import logging
    logging.disable(logging.CRITICAL)
    from checks import c06
    from simkit.decisions import Decisions, substream
    from simkit.run import Violation
    t0 = time.monotonic()
    c06.warmup("quick")
    mism, execs, cases, model_checked = [], 0, 0, 0
    i = 0
    while cases < ncases and i < 50 * ncases:
        ds = Decisions(rng=substream("C06", seed, i, "realbin"))
        i += 1
        case = c06.Case(ds, heavy=True)
        if not case.exact or not c06.SIM.has(c06._compiled(case.entry())):
            continue
        cases += 1
        if cases <= max(4, ncases // 4):
            import numba
            numba.set_num_threads(16 if numba.config.NUMBA_NUM_THREADS >= 16 else numba.config.NUMBA_NUM_THREADS)
            try:
                case.check(case.run(c06._compiled), "C06/realbin-" + case.op, f"compiled {case.entry()} with all threads on {case.desc}")
                model_checked += 1
            except Violation as v:
                mism.append({"op": case.op, "threads": 16, "chunksize": 0, "what": v.message, "values": ds.values()})
        bad = sweep_case(case, reps)
        execs += sweep_case.executions
        for b in bad:
            b["values"] = ds.values()
        mism.extend(bad)
    import numba
    doc = {"layer_requested": numba.config.THREADING_LAYER, "layer_used": numba.threading_layer(), "cases": cases, "executions": execs,
           "compared_with_exact_model": model_checked, "threads": THREADS, "chunksizes": CHUNKS, "reps": reps,
           "mismatches": mism, "wall_s": round(time.monotonic() - t0, 1)}
    print("REALBIN " + json.dumps(doc))
    return 1 if mism else 0


if __name__ == "__main__":
    sys.exit(main(int(sys.argv[1]), int(sys.argv[2]), int(sys.argv[3])))
