"""Simulated thread pool for code written against concurrent.futures (DESIGN.md 3.3).

Every submitted task runs on a real `threading.Thread`, but a thread only runs while it holds the
*baton*; it hands the baton back at yield points (task start/end, every traced source line of the
code under test, explicit `yield_point` calls from proxies).  Who runs next, for how many yield
points, whether `as_completed` delivers a finished future or lets workers run first, and in which
order finished futures are delivered are all decisions of the run's decision source -- so one
choice sequence is one exactly repeatable interleaving.
"""
from __future__ import annotations

import sys
import threading

from simkit.run import Violation

RUNLEN = [1, 2, 3, 5, 8, 13, 34, 10 ** 9]
_WAIT_S = 300.0


class _Abort(BaseException):
    """Unwinds parked workers when the run is torn down."""


class HarnessHang(Exception):
    pass


class Baton:
    def __init__(self, ds, log=None, trace_files=(), policy: str = "runs", prop: str = "C14"):
        self.ds = ds
        self.log = log
        self.cv = threading.Condition()
        self.holder = "main"
        self.state: dict[str, str] = {}      # name -> queued | ready | done
        self.names: list[str] = []
        self.queue: list[str] = []           # FIFO of queued task names (more tasks than max_workers)
        self.max_workers = 1
        self.trace_files = tuple(trace_files)
        self.policy = policy
        self.prop = prop
        self.abort = False
        self.yields = 0
        self.picks = 0
        self.switches = 0
        self.last = None
        self.pick_trace: list = []
        self.tl = threading.local()
        self.threads: list[threading.Thread] = []
        self.delivered: list[int] = []          # indices of futures in the order as_completed handed them out
        self.delivered_while_running = 0        # deliveries made while another worker was still unfinished

    # ------------------------------------------------------------ worker side
    def current(self) -> str | None:
        return getattr(self.tl, "name", None)

    def _park(self, name):
        while self.holder != name:
            if self.abort:
                raise _Abort()
            if not self.cv.wait(_WAIT_S):
                raise _Abort()

    def yield_point(self, where):
        """Called on a simulated worker thread: give the baton back and wait to be picked again."""
        name = self.current()
        if name is None:
            return
        with self.cv:
            self.yields += 1
            if self.log is not None:
                self.log.add("y", name, where)
            self.holder = "sched"
            self.cv.notify_all()
            self._park(name)

    def _finish(self, name):
        with self.cv:
            self.state[name] = "done"
            if self.log is not None:
                self.log.add("done", name)
            if self.queue:
                nxt = self.queue.pop(0)
                self.state[nxt] = "ready"
            self.holder = "sched"
            self.cv.notify_all()

    def _tracer(self, frame, event, arg):
        if frame.f_code.co_filename in self.trace_files:
            def local(fr, ev, ar):
                if ev == "line":
                    self.yield_point((fr.f_code.co_name, fr.f_lineno))
                return local
            return local
        return None

    def spawn(self, fn, args, fut):
        name = f"w{len(self.names)}"
        self.names.append(name)
        active = sum(1 for s in self.state.values() if s == "ready")
        if active < self.max_workers:
            self.state[name] = "ready"
        else:
            self.state[name] = "queued"
            self.queue.append(name)

        def body():
            self.tl.name = name
            try:
                with self.cv:
                    self._park(name)
                if self.trace_files:
                    sys.settrace(self._tracer)
                try:
                    fut._res = fn(*args)
                except _Abort:
                    raise
                except BaseException as e:  # stored, re-raised by result() like a real future
                    fut._exc = e
                finally:
                    sys.settrace(None)
                fut._done = True
                self._finish(name)
            except _Abort:
                return

        t = threading.Thread(target=body, name=f"sim-{name}", daemon=True)
        self.threads.append(t)
        t.start()
        return name

    # ------------------------------------------------------------ scheduler side (main thread)
    def runnable(self) -> list[str]:
        return [n for n in self.names if self.state.get(n) == "ready"]

    def _run_until_yield(self, name):
        with self.cv:
            if self.last is not None and self.last != name:
                self.switches += 1
            self.last = name
            self.holder = name
            self.cv.notify_all()
            while self.holder != "sched":
                if not self.cv.wait(_WAIT_S):
                    self.abort = True
                    self.cv.notify_all()
                    raise HarnessHang(f"simulated worker {name} did not reach a yield point within {_WAIT_S}s")
            self.holder = "main"

    def step(self) -> bool:
        """Let one runnable worker run for a drawn number of yield points. False if none is runnable."""
        ready = self.runnable()
        if not ready:
            return False
        if self.policy == "serial":
            name, length = ready[0], 10 ** 9
        elif self.policy == "reverse":
            name, length = ready[-1], 10 ** 9
        elif self.policy == "round_robin":
            i = (ready.index(self.last) + 1) % len(ready) if self.last in ready else 0
            name, length = ready[i], 1
        else:
            name = ready[self.ds.choose(len(ready), "sched.pick")]
            length = RUNLEN[self.ds.choose(len(RUNLEN), "sched.runlen")]
        self.picks += 1
        self.pick_trace.append(name)
        for _ in range(length):
            if self.state.get(name) != "ready":
                break
            self._run_until_yield(name)
        return True

    def drain(self):
        while self.step():
            pass

    def teardown(self):
        with self.cv:
            self.abort = True
            self.cv.notify_all()
        for t in self.threads:
            t.join(5.0)


class SimFuture:
    def __init__(self, baton: Baton):
        self._baton = baton
        self._done = False
        self._res = None
        self._exc = None

    def done(self):
        return self._done

    def result(self, timeout=None):
        while not self._done:
            if not self._baton.step():
                raise Violation(f"{self._baton.prop}/O5-deadlock", "result() on a future that is not done while no worker is runnable")
        if self._exc is not None:
            raise self._exc
        return self._res

    def exception(self, timeout=None):
        while not self._done:
            if not self._baton.step():
                raise Violation(f"{self._baton.prop}/O5-deadlock", "exception() on a future that is not done while no worker is runnable")
        return self._exc

    def cancel(self):
        return False


def make_pool(baton: Baton):
    """Return (ThreadPoolExecutor-like class, as_completed-like function) bound to one baton."""

    class SimExecutor:
        def __init__(self, max_workers=None, *a, **k):
            baton.max_workers = max(1, int(max_workers or 1))
            self.futures: list[SimFuture] = []

        def __enter__(self):
            return self

        def __exit__(self, et, ev, tb):
            self.shutdown(wait=True)
            return False

        def submit(self, fn, *args, **kwargs):
            if kwargs:
                _fn = fn
                fn = lambda *a: _fn(*a, **kwargs)  # noqa: E731
            f = SimFuture(baton)
            self.futures.append(f)
            baton.spawn(fn, args, f)
            # a real pool's threads start running while the caller is still submitting
            for _ in range(baton.ds.choose(3, "submit.let_workers_run")):
                if not baton.step():
                    break
            return f

        def map(self, fn, *iterables):
            futs = [self.submit(fn, *a) for a in zip(*iterables)]
            return (f.result() for f in futs)

        def shutdown(self, wait=True, cancel_futures=False):
            if wait:
                baton.drain()

    def as_completed(fs, timeout=None):
        pending = list(fs)
        delivered_while_others_pending = 0
        while pending:
            done = [f for f in pending if f.done()]
            can_run = bool(baton.runnable())
            if done and (not can_run or baton.ds.choose(2, "as_completed.run_workers_first") == 0):
                f = done[baton.ds.choose(len(done), "as_completed.which_done")]
                pending.remove(f)
                baton.delivered.append(list(fs).index(f))
                if any(not g.done() for g in pending):
                    baton.delivered_while_running += 1
                if baton.log is not None:
                    baton.log.add("deliver", fs.index(f) if hasattr(fs, "index") else -1)
                yield f
            elif can_run:
                baton.step()
            else:
                raise Violation(f"{baton.prop}/O5-deadlock", f"{len(pending)} future(s) pending, none done and no worker runnable")

    return SimExecutor, as_completed
