"""Real-binary leg of C14 (bridge, not the decider): the real ThreadPoolExecutor and the compiled prange kernel under
numba.set_num_threads(n), in a fresh interpreter with the thread-safe `omp` layer.  The OS picks the interleaving."""
from __future__ import annotations

import json
import sys
import time

WORKERS = [2, 3, 5, 8, 16]
THREADS = [1, 4, 16]


def main(seed: int, ncfg: int) -> int:
    import logging
    import warnings
    logging.disable(logging.CRITICAL)
    warnings.filterwarnings("ignore")
    import numba
    from checks import c14
    from simkit.decisions import Decisions, substream
    t0 = time.monotonic()
    c14.warmup("quick")
    mism, execs, cfgs = [], 0, 0
    i = 0
    while cfgs < ncfg and i < 20 * ncfg:
        ds = Decisions(rng=substream("C14", seed, i, "realbin"))
        i += 1
        cfg = c14.draw_config(ds, len(c14.ENVS), quick=True)
        if cfg["method"] == "symplectic" and cfg["order"] > 4:
            continue
        numba.set_num_threads(1)
        try:
            ref = c14._compute(cfg, n_workers=1)
        except Exception:
            continue
        cfgs += 1
        ref_rows = c14._multiset(*c14._rows(ref))
        for nt in THREADS:
            if nt > numba.config.NUMBA_NUM_THREADS:
                continue
            numba.set_num_threads(nt)
            for nw in WORKERS:
                try:
                    got = c14._compute(cfg, n_workers=nw)
                    rows = c14._multiset(*c14._rows(got))
                except Exception as e:
                    rows = ("raised", type(e).__name__, str(e)[:200])
                execs += 1
                if rows != ref_rows:
                    mism.append({"config": dict(cfg, env=c14.ENVS[cfg["env"]]["name"]), "workers": nw, "threads": nt, "values": ds.values(),
                                 "what": f"real ThreadPoolExecutor with {nw} workers and {nt} numba threads returned "
                                         f"{len(rows) if isinstance(rows, list) else rows} rows, 1 worker / 1 thread returned {len(ref_rows)}"})
                    break
    numba.set_num_threads(1)
    doc = {"layer_used": numba.threading_layer(), "configs": cfgs, "executions": execs, "workers": WORKERS, "threads": THREADS,
           "mismatches": mism, "wall_s": round(time.monotonic() - t0, 1)}
    print("REALBIN " + json.dumps(doc, default=repr))
    return 1 if mism else 0


if __name__ == "__main__":
    sys.exit(main(int(sys.argv[1]), int(sys.argv[2])))
