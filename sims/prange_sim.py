"""Cooperative simulator for numba `prange` regions (DESIGN.md 3.1).

Executes the repository's *own Python source* of every numba dispatcher that is
a parallel kernel, or (transitively) calls one, under numba's documented prange
semantics with a scheduler owned by the simulation:

* `for i in prange(n): BODY` of a `parallel=True` function becomes an outlined
  generator; a `yield` precedes every simple statement, and a subscripted
  augmented assignment `a[k] op= v` becomes load / yield / store so that a
  pre-emption can fall inside the read-modify-write window of one array cell.
* names assigned in the body are private to the iteration (generator locals);
  names only read are shared through the closure -- as in the compiled code.
* scalar reductions `s += v` / `s *= v` on a name are modelled as per-thread
  partials combined after the loop.
* `get_thread_id()` / `get_num_threads()` return the simulated values.
* a `prange` inside a function without `parallel=True` stays a `range`.

Which dispatchers are simulated is computed from the working tree, not listed.
Anything the transformer does not model raises `Unmodelled` (a harness error
naming the construct), never a silent pass.
"""
from __future__ import annotations

import ast
import copy
import hashlib
import inspect
import textwrap
from typing import Callable

import numba
import numpy as np
from numba.core.registry import CPUDispatcher

from simkit.decisions import StepCapExceeded
from simkit.run import Violation


class Unmodelled(Exception):
    pass


# --------------------------------------------------------------------------- AST
class _BodyRewriter:
    """Rewrites the statements of an outlined prange body."""

    def __init__(self, reductions: dict[str, str], shared_written: set[str] | None = None):
        self.loop_depth = 0
        self.tmp = 0
        self.reductions = reductions
        self.shared_written = shared_written or set()

    def _tag(self, node) -> str:
        """'store' if the statement/expression writes an element of a shared array that the body writes, 'sload' if it reads
        one, else 'stmt'.  Conflict-directed policies take scheduling decisions at these points."""
        tag = "stmt"
        for n in ast.walk(node):
            if isinstance(n, ast.Subscript) and isinstance(n.value, ast.Name) and n.value.id in self.shared_written:
                if isinstance(n.ctx, ast.Store):
                    return "store"
                tag = "sload"
        return tag

    def _y(self, tag: str, node, extra: list | None = None):
        elts = [ast.Constant(tag), ast.Constant(getattr(node, "lineno", 0))] + (extra or [])
        return ast.copy_location(ast.Expr(ast.Yield(ast.Tuple(elts, ast.Load()))), node)

    def stmts(self, stmts):
        out = []
        for s in stmts:
            if isinstance(s, ast.AugAssign) and isinstance(s.target, ast.Subscript):
                self.tmp += 1
                t, k, v, a = f"__rmw{self.tmp}", f"__key{self.tmp}", f"__val{self.tmp}", f"__arr{self.tmp}"
                out.append(self._y("stmt", s))
                out.append(ast.copy_location(ast.Assign([ast.Name(a, ast.Store())], s.target.value), s))
                out.append(ast.copy_location(ast.Assign([ast.Name(k, ast.Store())], s.target.slice), s))
                out.append(ast.copy_location(ast.Assign([ast.Name(v, ast.Store())], s.value), s))
                load = ast.Subscript(ast.Name(a, ast.Load()), ast.Name(k, ast.Load()), ast.Load())
                out.append(ast.copy_location(ast.Assign([ast.Name(t, ast.Store())], load), s))
                out.append(self._y("rmw", s, [ast.Name(a, ast.Load()), ast.Name(k, ast.Load())]))
                store = ast.Subscript(ast.Name(a, ast.Load()), ast.Name(k, ast.Load()), ast.Store())
                out.append(ast.copy_location(
                    ast.Assign([store], ast.BinOp(ast.Name(t, ast.Load()), s.op, ast.Name(v, ast.Load()))), s))
            elif isinstance(s, ast.AugAssign) and isinstance(s.target, ast.Name) and s.target.id in self.reductions:
                # scalar reduction: accumulate into this thread's partial
                out.append(self._y("stmt", s))
                call = ast.Call(ast.Attribute(ast.Name("__sim", ast.Load()), "reduce", ast.Load()),
                                [ast.Constant(s.target.id), ast.Constant(type(s.op).__name__), s.value], [])
                out.append(ast.copy_location(ast.Expr(call), s))
            elif isinstance(s, (ast.For, ast.While)):
                head = s.iter if isinstance(s, ast.For) else s.test
                if self._tag(head) != "stmt":
                    out.append(self._y(self._tag(head), s))
                s = copy.copy(s)
                self.loop_depth += 1
                s.body = self.stmts(s.body)
                self.loop_depth -= 1
                s.orelse = self.stmts(s.orelse)
                out.append(s)
            elif isinstance(s, ast.If):
                if self._tag(s.test) != "stmt":
                    out.append(self._y(self._tag(s.test), s))   # the test reads shared written memory: a pre-emption point before it
                s = copy.copy(s)
                s.body = self.stmts(s.body)
                s.orelse = self.stmts(s.orelse)
                out.append(s)
            elif isinstance(s, ast.Continue) and self.loop_depth == 0:
                out.append(ast.copy_location(ast.Return(None), s))
            elif isinstance(s, (ast.Return, ast.Break)) and self.loop_depth == 0:
                raise Unmodelled(f"line {s.lineno}: {type(s).__name__} at prange body level")
            elif isinstance(s, (ast.With, ast.Try, ast.FunctionDef, ast.Global, ast.Nonlocal)):
                raise Unmodelled(f"line {s.lineno}: {type(s).__name__} inside a prange body")
            else:
                out.append(self._y(self._tag(s), s))
                out.append(s)
        return out


def _assigned_names(stmts) -> set[str]:
    names = set()
    for node in ast.walk(ast.Module(body=list(stmts), type_ignores=[])):
        if isinstance(node, ast.Name) and isinstance(node.ctx, ast.Store):
            names.add(node.id)
    return names


def _find_reductions(body) -> dict[str, str]:
    """Names updated ONLY through `name op= expr` (op in + * -) anywhere in the body: numba reductions."""
    aug: dict[str, set] = {}
    plain: set[str] = set()
    for node in ast.walk(ast.Module(body=list(body), type_ignores=[])):
        if isinstance(node, ast.AugAssign) and isinstance(node.target, ast.Name):
            aug.setdefault(node.target.id, set()).add(type(node.op).__name__)
        elif isinstance(node, ast.Name) and isinstance(node.ctx, ast.Store):
            plain.add(node.id)
    out = {}
    for name, ops in aug.items():
        # AugAssign targets also appear as Store Names; count plain stores separately
        n_store = sum(1 for node in ast.walk(ast.Module(body=list(body), type_ignores=[]))
                      if isinstance(node, ast.Name) and isinstance(node.ctx, ast.Store) and node.id == name)
        n_aug = sum(1 for node in ast.walk(ast.Module(body=list(body), type_ignores=[]))
                    if isinstance(node, ast.AugAssign) and isinstance(node.target, ast.Name) and node.target.id == name)
        if n_store == n_aug and len(ops) == 1 and next(iter(ops)) in ("Add", "Mult", "Sub"):
            out[name] = next(iter(ops))
    return out


class _Outliner(ast.NodeTransformer):
    def __init__(self):
        self.n = 0

    def visit_FunctionDef(self, node):
        if self.n == 0 and not getattr(node, "_root", False):
            return node  # nested defs are left alone
        self.generic_visit(node)
        return node

    def visit_For(self, node):
        self.generic_visit(node)
        it = node.iter
        if not (isinstance(it, ast.Call) and isinstance(it.func, ast.Name) and it.func.id == "prange"):
            return node
        if not isinstance(node.target, ast.Name):
            raise Unmodelled(f"line {node.lineno}: prange target is not a simple name")
        if node.orelse:
            raise Unmodelled(f"line {node.lineno}: prange with else clause")
        self.n += 1
        name = f"__body{self.n}"
        reductions = _find_reductions(node.body)
        local_names = _assigned_names(node.body) | {node.target.id}
        shared_written = set()
        for n in ast.walk(ast.Module(body=list(node.body), type_ignores=[])):
            if isinstance(n, ast.Subscript) and isinstance(n.ctx, ast.Store) and isinstance(n.value, ast.Name) and n.value.id not in local_names:
                shared_written.add(n.value.id)
        rw = _BodyRewriter(reductions, shared_written)
        body = rw.stmts(copy.deepcopy(node.body))
        body.append(ast.Expr(ast.Yield(ast.Tuple([ast.Constant("end"), ast.Constant(0)], ast.Load()))))
        fn = ast.FunctionDef(name=name,
                             args=ast.arguments(posonlyargs=[], args=[ast.arg(node.target.id)], kwonlyargs=[],
                                                kw_defaults=[], defaults=[]),
                             body=body, decorator_list=[], type_params=[])
        rng = ast.Call(ast.Name("range", ast.Load()), it.args, [])
        stmts = [ast.copy_location(fn, node)]
        if reductions:
            # partial = __sim.parallel_for(...); name = name op combine(partials)
            call = ast.Call(ast.Attribute(ast.Name("__sim", ast.Load()), "parallel_for", ast.Load()),
                            [rng, ast.Name(name, ast.Load()),
                             ast.Tuple([ast.Tuple([ast.Constant(rn), ast.Constant(ro)], ast.Load()) for rn, ro in sorted(reductions.items())],
                                       ast.Load())], [])
            stmts.append(ast.copy_location(ast.Assign([ast.Name("__partials", ast.Store())], call), node))
            for rname, op in sorted(reductions.items()):
                binop = {"Add": ast.Add(), "Sub": ast.Add(), "Mult": ast.Mult()}[op]  # `s -= v` partials hold -v sums
                val = ast.BinOp(ast.Name(rname, ast.Load()), binop,
                                ast.Subscript(ast.Name("__partials", ast.Load()), ast.Constant(rname), ast.Load()))
                stmts.append(ast.copy_location(ast.Assign([ast.Name(rname, ast.Store())], val), node))
        else:
            call = ast.Expr(ast.Call(ast.Attribute(ast.Name("__sim", ast.Load()), "parallel_for", ast.Load()),
                                     [rng, ast.Name(name, ast.Load())], []))
            stmts.append(ast.copy_location(call, node))
        return stmts


class _NumbaTypeFix(ast.NodeTransformer):
    """`np.complex128[::1]` is a numba type expression inside jitted code; in Python mode use numba's type."""

    def visit_Subscript(self, node):
        self.generic_visit(node)
        v = node.value
        if (isinstance(v, ast.Attribute) and isinstance(v.value, ast.Name) and v.value.id == "np"
                and isinstance(node.slice, ast.Slice) and hasattr(numba, v.attr)):
            node.value = ast.Attribute(ast.Name("__numba", ast.Load()), v.attr, ast.Load())
        return node


class _ListShim:
    """numba.typed.List as seen from jitted code (accepts an instance where a type is expected)."""

    def __call__(self, *a):
        return numba.typed.List(*a)

    @staticmethod
    def empty_list(t):
        if isinstance(t, numba.typed.List):
            t = numba.typeof(t)
        return numba.typed.List.empty_list(t)


# --------------------------------------------------------------------------- scheduler
POLICIES = ["rmw", "runs", "pct", "perm", "round_robin", "reverse", "serial"]
PARTITIONS = ["static", "arbitrary", "chunked"]
RUNLEN = [1, 2, 3, 5, 8, 13, 34, 10 ** 9]


class PrangeSim:
    """One instance per process; `begin_run` installs the decisions of the current run."""

    def __init__(self, modules, step_cap: int = 400_000):
        self.modules = list(modules)
        self.step_cap = step_cap
        self.ds = None
        self.nT = 1
        self.cur = 0
        self.depth = 0
        self.policy = "serial"
        self.partition = "static"
        self.chunk = 1
        self.simfn: dict = {}
        self.kernels: list[str] = []
        self.callers: list[str] = []
        self._build()
        self.reset_stats()

    # ---------------------------------------------------------------- build
    def _dispatchers(self, mod):
        return {n: o for n, o in vars(mod).items()
                if isinstance(o, CPUDispatcher) and getattr(o.py_func, "__module__", None) == mod.__name__}

    @staticmethod
    def is_parallel_kernel(d) -> bool:
        if not d.targetoptions.get("parallel"):
            return False
        try:
            tree = ast.parse(textwrap.dedent(inspect.getsource(d.py_func)))
        except (OSError, TypeError):
            return False
        for node in ast.walk(tree):
            if isinstance(node, ast.For) and isinstance(node.iter, ast.Call) and isinstance(node.iter.func, ast.Name) \
                    and node.iter.func.id == "prange":
                return True
        return False

    def _build(self):
        alld = []
        for m in self.modules:
            alld.extend(self._dispatchers(m).values())
        reach: dict = {}

        def callees(d):
            g = d.py_func.__globals__
            return [g[n] for n in d.py_func.__code__.co_names if isinstance(g.get(n), CPUDispatcher)]

        def reaches(d, seen=()):
            if d in reach:
                return reach[d]
            if d in seen:
                return False
            r = self.is_parallel_kernel(d) or any(reaches(c, seen + (d,)) for c in callees(d))
            reach[d] = r
            return r

        todo = [d for d in alld if reaches(d)]
        # callees living in other modules that also reach a kernel
        frontier = list(todo)
        while frontier:
            d = frontier.pop()
            for c in callees(d):
                if reaches(c) and c not in todo:
                    todo.append(c)
                    frontier.append(c)
        for d in todo:
            py = d.py_func
            src = textwrap.dedent(inspect.getsource(py))
            tree = ast.parse(src)
            fdef = tree.body[0]
            fdef.decorator_list = []
            fdef._root = True
            _NumbaTypeFix().visit(fdef)
            if self.is_parallel_kernel(d):
                o = _Outliner()
                o.n = 0
                fdef.body = [x for s in fdef.body for x in (lambda r: r if isinstance(r, list) else [r])(o.visit(s))]
                self.kernels.append(py.__name__)
            else:
                self.callers.append(py.__name__)
            ast.fix_missing_locations(tree)
            g = dict(py.__globals__)
            g.update({"__sim": self, "__numba": numba, "get_thread_id": self.get_thread_id,
                      "get_num_threads": self.get_num_threads, "prange": range, "List": _ListShim()})
            code = compile(tree, f"<prange-sim:{py.__module__}.{py.__name__}>", "exec")
            exec(code, g)
            self.simfn[d] = (g[py.__name__], g)
        for d, (fn, g) in self.simfn.items():
            for n, v in list(g.items()):
                if isinstance(v, CPUDispatcher) and v in self.simfn:
                    g[n] = self.simfn[v][0]
        self.kernels.sort()
        self.callers.sort()

    def fn(self, dispatcher) -> Callable:
        return self.simfn[dispatcher][0]

    def has(self, dispatcher) -> bool:
        return dispatcher in self.simfn

    # ---------------------------------------------------------------- per run
    def reset_stats(self):
        self.steps = 0
        self.switches = 0
        self.rmw_preempted = 0
        self.same_slot_concurrent = 0
        self.regions = 0
        self.threads_idle = 0
        self.cell_events: dict = {}
        self._arr_ids: dict = {}
        self._red: list = []

    def begin_run(self, ds, nT: int, partition: str, policy: str, chunk: int = 1):
        self.ds, self.nT, self.partition, self.policy, self.chunk = ds, int(nT), partition, policy, int(chunk)
        self.cur, self.depth = 0, 0
        self.reset_stats()

    def get_thread_id(self):
        return self.cur if self.depth > 0 else 0

    def get_num_threads(self):
        return self.nT

    def reduce(self, name, op, value):
        part = self._red[-1][self.cur]
        if op == "Add":
            part[name] = part.get(name, 0) + value
        elif op == "Sub":
            part[name] = part.get(name, 0) - value
        else:
            part[name] = part.get(name, 1) * value

    def signature(self) -> str:
        h = hashlib.sha256()
        for cell in sorted(self.cell_events):
            h.update(repr((cell, self.cell_events[cell])).encode())
        return h.hexdigest()[:16]

    def _cell(self, arr, key):
        base = arr.base if isinstance(arr, np.ndarray) and arr.base is not None else arr
        i = self._arr_ids.setdefault(id(base), len(self._arr_ids))
        if isinstance(key, tuple):
            key = tuple(int(k) if isinstance(k, (int, np.integer)) else repr(k) for k in key)
        elif isinstance(key, (int, np.integer)):
            key = int(key)
        else:
            key = repr(key)
        return (self.regions, i, key)

    # ---------------------------------------------------------------- partition
    def _partition(self, n: int):
        nT, ds = self.nT, self.ds
        if self.partition == "static":
            base, rem = divmod(n, nT)
            chunks, s = [], 0
            for t in range(nT):
                e = s + base + (1 if t < rem else 0)
                chunks.append(list(range(s, e)))
                s = e
            return chunks
        chunks = [[] for _ in range(nT)]
        if self.partition == "chunked":
            k = max(1, self.chunk)
            for c, s in enumerate(range(0, n, k)):
                t = ds.choose(nT, f"chunk[{c}]->thread")
                chunks[t].extend(range(s, min(n, s + k)))
            return chunks
        for i in range(n):
            chunks[ds.choose(nT, f"iter[{i}]->thread")].append(i)
        return chunks

    # ---------------------------------------------------------------- the region
    def parallel_for(self, rng, body, reductions=None):
        idxs = list(rng)
        n = len(idxs)
        if self.depth > 0:
            # nested parallel region: numba runs it serially on the calling thread
            self._red.append({self.cur: {}})
            self.depth += 1
            try:
                for i in idxs:
                    for _ in body(i):
                        self._tick()
            finally:
                self.depth -= 1
            return self._combine(reductions, self._red.pop())
        self.regions += 1
        self._arr_ids = {}  # array identities are only meaningful within one region (addresses are recycled)
        chunks = self._partition(n)
        self._red.append({t: {} for t in range(self.nT)})
        self.threads_idle += sum(1 for c in chunks if not c)

        def thread(t):
            for j in chunks[t]:
                yield from body(idxs[j])

        gens = {t: thread(t) for t in range(self.nT) if chunks[t]}
        self.depth += 1
        try:
            self._schedule(gens)
        finally:
            self.depth -= 1
            self.cur = 0
        return self._combine(reductions, self._red.pop())

    @staticmethod
    def _combine(reductions, partials):
        if not reductions:
            return None
        out = {}
        for name, op in reductions:
            acc = 1 if op == "Mult" else 0
            for t in sorted(partials):
                if name in partials[t]:
                    acc = acc * partials[t][name] if op == "Mult" else acc + partials[t][name]
            out[name] = acc
        return out

    def _tick(self):
        self.steps += 1
        if self.steps > self.step_cap:
            raise StepCapExceeded(f"prange simulator step cap {self.step_cap}")

    def _schedule(self, gens):
        ds = self.ds
        pending: dict = {}    # thread -> cell it has loaded and not yet stored
        alive = sorted(gens)
        policy = self.policy if len(alive) > 1 else "serial"
        prev = None

        def step(t):
            """Advance thread t by one yield; returns the tag or None when finished."""
            nonlocal prev
            if prev is not None and prev != t:
                self.switches += 1
                if prev in pending:
                    self.rmw_preempted += 1
            prev = t
            self.cur = t
            self._tick()
            if t in pending:  # resuming performs the store of the open window
                cell = pending.pop(t)
                self.cell_events.setdefault(cell, []).append((t, "S"))
            try:
                item = next(gens[t])
            except StopIteration:
                del gens[t]
                alive.remove(t)
                return None
            except IndexError as e:
                raise Violation("C06/out-of-bounds-access",
                                f"simulated thread {t} of {self.nT} indexed outside an array inside a prange body: {e} "
                                f"(the compiled kernel has no bounds check and would corrupt memory)")
            if item[0] == "rmw":
                cell = self._cell(item[2], item[3])
                pending[t] = cell
                self.cell_events.setdefault(cell, []).append((t, "L"))
                # probe: another thread has an open window on the same output slot (last key component) in another row
                for u, c in pending.items():
                    if u != t and c[0] == cell[0] and c[1] == cell[1] and c != cell \
                            and isinstance(c[2], tuple) and isinstance(cell[2], tuple) and c[2][-1] == cell[2][-1]:
                        self.same_slot_concurrent += 1
                        break
            return item[0]

        if policy in ("serial", "reverse", "perm"):
            order = list(alive)
            if policy == "reverse":
                order.reverse()
            elif policy == "perm":
                pool, order = list(alive), []
                while pool:
                    order.append(pool.pop(ds.choose(len(pool), "perm.pick")))
            for t in order:
                while t in gens:
                    step(t)
            return
        if policy == "round_robin":
            q = 1 + ds.choose(3, "rr.quantum")
            while alive:
                for t in list(alive):
                    for _ in range(q):
                        if t not in gens or step(t) is None:
                            break
            return
        if policy == "runs":
            while alive:
                t = alive[ds.choose(len(alive), "runs.thread")]
                length = RUNLEN[ds.choose(len(RUNLEN), "runs.length")]
                for _ in range(length):
                    if step(t) is None:
                        break
            return
        if policy == "pct":
            prio = {}
            pool = list(alive)
            rank = len(pool)
            while pool:
                prio[pool.pop(ds.choose(len(pool), "pct.prio"))] = rank
                rank -= 1
            d = 1 + ds.choose(3, "pct.depth")
            est = max(8, 6 * sum(1 for _ in alive) * 8)
            changes = sorted(ds.choose(est * 4, f"pct.change[{k}]") for k in range(d))
            local = 0
            low = 0
            while alive:
                t = max(alive, key=lambda k: prio[k])
                while changes and local >= changes[0]:
                    changes.pop(0)
                    low -= 1
                    prio[t] = low
                    t = max(alive, key=lambda k: prio[k])
                step(t)
                local += 1
            return
        if policy == "rmw":
            # conflict-directed: decisions only at open read-modify-write windows
            t = alive[ds.choose(len(alive), "rmw.first")]
            while alive:
                if t not in gens:
                    t = alive[ds.choose(len(alive), "rmw.next")]
                tag = step(t)
                if tag in ("rmw", "store", "sload") and len(alive) > 1:
                    c = ds.choose(3, "rmw.at_window", (0.55, 0.3, 0.15))
                    if c:
                        others = [u for u in alive if u != t]
                        if c == 2:
                            same = [u for u in others if u in pending]
                            others = same or others
                        t = others[ds.choose(len(others), "rmw.switch_to")]
            return
        raise Unmodelled(f"unknown policy {policy}")
