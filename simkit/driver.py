"""Batch driver: seeded search over many simulated runs on all cores (DESIGN.md 2.5-2.7)."""
from __future__ import annotations

import faulthandler
import hashlib
import importlib
import json
import multiprocessing
import os
import subprocess
import sys
import time
from collections import Counter
from concurrent.futures import ProcessPoolExecutor, wait, FIRST_COMPLETED
from concurrent.futures.process import BrokenProcessPool
from pathlib import Path

from .decisions import substream
from .run import RunResult, minimise, run_once

VERIF = Path(__file__).resolve().parent.parent
# selftests (sensitivity mutants) redirect their output so that committed evidence is never overwritten by them
EVIDENCE = Path(os.environ.get("VERIF_EVIDENCE_DIR") or VERIF / "evidence")
REPLAYS = Path(os.environ.get("VERIF_REPLAY_DIR") or VERIF / "replays")
KNOWN_FILE = VERIF / "known_findings.json"

_MOD = None  # check module, set in parent before fork


def load_known(prop: str) -> dict:
    """Committed list of known findings; never written at run time."""
    try:
        data = json.loads(KNOWN_FILE.read_text())
    except FileNotFoundError:
        data = {"known": [], "fixed": []}
    return {e["id"]: e for e in data.get("known", []) if e.get("property") == prop}


def repo_tree_id() -> str:
    try:
        head = subprocess.run(["git", "-C", "/repo", "rev-parse", "HEAD"], capture_output=True, text=True, timeout=20).stdout.strip()
        diff = subprocess.run(["git", "-C", "/repo", "diff", "HEAD", "--", "src"], capture_output=True, timeout=60).stdout
        return head[:12] + ("+dirty:" + hashlib.sha256(diff).hexdigest()[:10] if diff.strip() else "")
    except Exception:
        return "unknown"


# ---------------------------------------------------------------- worker side
def _worker_init():
    try:
        import numba
        numba.set_num_threads(1)  # simulated runs own the schedule; compiled prange stays serial here
    except Exception:
        pass


def _work(prop: str, tier: str, seed: int, jobs: list, run_timeout: float, min_budget: float):
    """Run a slice of jobs. job = ("seed", run_index, leg) | ("values", tag, leg, [ints])."""
    mod = _MOD
    out = []
    for job in jobs:
        execute = mod.LEGS[job[2]]
        faulthandler.dump_traceback_later(run_timeout, exit=True)
        try:
            if job[0] == "seed":
                rng = substream(prop, seed, job[1], job[2])
                r = run_once(execute, prop, rng=rng, tier=tier)
            else:
                r = run_once(execute, prop, values=job[3], tier=tier)
        finally:
            faulthandler.cancel_dump_traceback_later()
        payload = None
        if r.verdict == "violation":
            values = [d[0] for d in r.decisions]
            faulthandler.dump_traceback_later(min_budget + 10 * run_timeout, exit=True)
            try:
                mvals, mres, mstats = minimise(execute, prop, values, r.vclass, tier=tier, budget_s=min_budget)
            except Exception as e:  # pragma: no cover - harness determinism failure
                r.verdict, r.vclass, r.message = "harness_error", "minimise-failed", f"{e!r}; original: {r.message}"
                mvals = None
            finally:
                faulthandler.cancel_dump_traceback_later()
            if mvals is not None:
                payload = {
                    "values": mvals,
                    "decisions": mres.decisions,
                    "events": mres.events,
                    "vclass": mres.vclass,
                    "message": mres.message,
                    "digest": mres.digest,
                    "minimise": mstats,
                    "original_len": len(values),
                    "sample": mres.sample,
                }
        out.append((tuple(job[:3]), r.slim(), payload))
        if r.verdict != "ok":
            break
    return out


# ---------------------------------------------------------------- parent side
class Report:
    def __init__(self, prop: str, tier: str, seed: int, level: str):
        self.prop, self.tier, self.seed, self.level = prop, tier, seed, level
        self.evaluations = 0
        self.sigs: set[str] = set()
        self.faults: Counter = Counter()
        self.probes: Counter = Counter()
        self.steps = 0
        self.decisions = 0
        self.samples: list = []
        self.violations: list = []
        self.harness_errors: list = []
        self.known_hit: Counter = Counter()
        self.known_lines: list[str] = []
        self.extra: dict = {}
        self.exhaustive = False
        self.t0 = time.monotonic()
        self.phase_stats: dict = {}
        self.digests: dict = {}
        self.runs_with_fault = 0
        self._sample_buckets: dict = {}
        self._sample_sigs: set = set()

    def absorb(self, key, r: RunResult):
        self.evaluations += 1
        if r.nontrivial:
            self.sigs.add(r.sig)
        self.faults.update(r.faults)
        if r.faults:
            self.runs_with_fault += 1
        self.probes.update(r.probes)
        self.steps += r.steps
        self.decisions += r.n_decisions
        for k in r.known:
            self.known_hit[k] += 1
        if r.sample is not None:
            # a few written-out cases per leg, non-trivial and distinct ones preferred
            bucket = self._sample_buckets.setdefault(key[2], [])
            if len(bucket) < 3 and (r.nontrivial or not bucket) and r.sig not in self._sample_sigs:
                bucket.append(r.sample)
                self._sample_sigs.add(r.sig)
                self.samples = [x for b in self._sample_buckets.values() for x in b]
        if key[0] == "seed" and len(self.digests) < 64:
            self.digests[(key[1], key[2])] = r.digest


def run_jobs(mod, report: Report, jobs_iter, *, procs: int, budget_s: float, chunk: int,
             run_timeout: float = 300.0, min_budget: float = 60.0, phase: str = "search",
             stop_on_violation: bool = True) -> None:
    """Feed jobs to forked workers until the iterator is exhausted or the budget is spent."""
    global _MOD
    _MOD = mod
    prop, tier, seed = report.prop, report.tier, report.seed
    t0 = time.monotonic()
    n_before = report.evaluations
    ctx = multiprocessing.get_context("fork")
    stop = False
    exhausted = False
    with ProcessPoolExecutor(max_workers=procs, mp_context=ctx, initializer=_worker_init) as pool:
        pending = set()

        def refill():
            nonlocal exhausted
            while not exhausted and not stop and len(pending) < 2 * procs and (time.monotonic() - t0) < budget_s:
                batch = []
                for _ in range(chunk):
                    try:
                        batch.append(next(jobs_iter))
                    except StopIteration:
                        exhausted = True
                        break
                if batch:
                    pending.add(pool.submit(_work, prop, tier, seed, batch, run_timeout, min_budget))

        refill()
        while pending:
            done, _ = wait(pending, timeout=run_timeout * 4 + min_budget * 2, return_when=FIRST_COMPLETED)
            if not done:
                report.harness_errors.append(("hang", f"no worker finished within {run_timeout * 4 + min_budget * 2}s in phase {phase}"))
                for p in list(getattr(pool, "_processes", {}).values()):
                    p.kill()
                break
            for f in done:
                pending.discard(f)
                try:
                    results = f.result()
                except BrokenProcessPool as e:
                    report.harness_errors.append(("worker-died", f"{e!r} in phase {phase} (a run exceeded {run_timeout}s or crashed the interpreter)"))
                    stop = True
                    pending.clear()
                    break
                except Exception as e:
                    report.harness_errors.append(("worker-exception", repr(e)))
                    stop = True
                    continue
                for key, r, payload in results:
                    report.absorb(key, r)
                    if r.verdict == "violation":
                        report.violations.append((key, r, payload))
                        if stop_on_violation:
                            stop = True
                    elif r.verdict == "harness_error":
                        report.harness_errors.append((r.vclass, f"job {key}: {r.message}"))
                        stop = True
            if stop:
                for f in pending:
                    f.cancel()
            refill()
    report.phase_stats[phase] = {
        "runs": report.evaluations - n_before,
        "wall_s": round(time.monotonic() - t0, 2),
        "exhausted_job_list": exhausted and not stop,
    }


def write_replay(report: Report, key, r: RunResult, payload: dict) -> Path:
    REPLAYS.mkdir(exist_ok=True)
    tag = f"{key[2]}-{key[1]}" if key[0] == "seed" else f"{key[2]}-enum-{key[1]}"
    path = REPLAYS / f"{report.prop}-{report.seed}-{tag}.json"
    doc = {
        "property": report.prop,
        "seed": report.seed,
        "run": key[1] if key[0] == "seed" else None,
        "source": key[0],
        "leg": key[2],
        "tier": report.tier,
        "violation_class": payload["vclass"],
        "message": payload["message"],
        "expected_digest": payload["digest"],
        "repo_tree": repo_tree_id(),
        "values": payload["values"],
        "decisions_labelled": payload["decisions"],
        "events": payload["events"],
        "minimise": payload["minimise"],
        "original_decisions": payload["original_len"],
        "case": payload.get("sample"),
        "how_to_replay": f"./check {report.prop} --replay {{this file}}",
    }
    path.write_text(json.dumps(doc, indent=1, default=repr))
    return path


def verify_replay_fresh(prop: str, path: Path, timeout: float = 900.0) -> tuple[bool, str]:
    """Re-execute a replay file in a fresh interpreter; same class and digest required."""
    try:
        p = subprocess.run([str(VERIF / "check"), prop, "--replay", str(path)], capture_output=True, text=True, timeout=timeout)
    except subprocess.TimeoutExpired:
        return False, "replay timed out"
    ok = p.returncode == 1 and "REPLAY-REPRODUCED" in p.stdout
    return ok, (p.stdout[-1500:] + p.stderr[-1500:])


def write_evidence(mod, report: Report, exit_code: int) -> None:
    EVIDENCE.mkdir(exist_ok=True)
    wall = time.monotonic() - report.t0
    cov = {
        "evaluations": int(report.evaluations),
        "distinct_nontrivial": int(len(report.sigs)),
        "rule": mod.RULE,
        "samples": report.samples[:12] or [],
        "exhaustive": bool(report.exhaustive),
        "runs": int(report.evaluations),
        "runs_per_hour": int(report.evaluations / max(wall, 1e-9) * 3600),
        "seeds": {"VERIF_SEED": report.seed, "run_indices": "0..N-1 of each seeded phase; run i draws from sha256(property/seed/i)"},
        "sim_steps": int(report.steps),
        "sim_decisions": int(report.decisions),
        "simulated_time_note": "hiten reads no clock; simulated time is reported as scheduler steps / simulated operations (sim_steps)",
        "fault_counts_fired": dict(report.faults),
        "runs_with_fault_fired": int(report.runs_with_fault),
        "probes": dict(report.probes),
        "distinct_interleavings": int(len(report.sigs)),
        "components": mod.COMPONENTS,
        "phases": report.phase_stats,
        "known_findings_hit": dict(report.known_hit),
        "harness_errors": [list(map(str, h))[:2] for h in report.harness_errors[:5]],
        "repo_tree": repo_tree_id(),
        "hiten_path": report.extra.pop("hiten_path", None),
        "exit_code": exit_code,
    }
    cov.update(report.extra)
    doc = {
        "property_id": report.prop,
        "tier": report.tier,
        "seed": int(report.seed),
        "level": report.level,
        "coverage": cov,
        "assumptions": list(mod.ASSUMPTIONS),
        "wall_s": round(wall, 2),
        "violations": len(report.violations),
    }
    (EVIDENCE / f"{report.prop}.json").write_text(json.dumps(doc, indent=1, default=repr))


def main_check(modname: str, tier: str, seed: int, *, budget_s: float | None, max_runs: int | None, procs: int | None) -> int:
    mod = importlib.import_module(modname)
    prop = mod.PROPERTY
    cfg = dict(mod.TIERS[tier])
    if budget_s is not None:
        cfg["budget_s"] = budget_s
    if max_runs is not None:
        cfg["max_runs"] = max_runs
    procs = procs or int(os.environ.get("VERIF_PROCS", "0")) or min(16, os.cpu_count() or 1)
    report = Report(prop, tier, seed, mod.LEVEL)
    print(f"VERIF_SEED={seed} property={prop} tier={tier} procs={procs} budget_s={cfg['budget_s']}", flush=True)
    exit_code = 0
    try:
        t = time.monotonic()
        mod.warmup(tier)
        import hiten
        report.extra["hiten_path"] = os.path.dirname(hiten.__file__)
        print(f"warm-up {time.monotonic() - t:.1f}s; hiten from {report.extra['hiten_path']}", flush=True)
        known = load_known(prop)
        # 1. known-finding replays first (DESIGN 2.7)
        for kid, entry in sorted(known.items()):
            vals = mod.known_replay_values(entry) if hasattr(mod, "known_replay_values") else entry.get("replay_values")
            if vals is None:
                continue
            r = run_once(mod.LEGS[entry.get("leg", mod.DEFAULT_LEG)], prop, values=vals, tier=tier)
            if kid in r.known or (r.verdict == "violation" and r.vclass == entry.get("violation_class")):
                line = f"KNOWN-FINDING: property={prop} {kid}: {entry['what']}"
                print(line, flush=True)
                report.known_lines.append(line)
                report.known_hit[kid] += 1
            else:
                report.extra.setdefault("known_findings_no_longer_failing", []).append(kid)
        # 2. deterministic pre-phases owned by the check (enumerations, sweeps)
        if hasattr(mod, "pre_phases"):
            mod.pre_phases(report, cfg, procs)
        # 3. seeded search
        if not report.violations and not report.harness_errors and cfg.get("max_runs", 0) > 0:
            jobs = (("seed", i, mod.DEFAULT_LEG) for i in range(cfg["max_runs"]))
            run_jobs(mod, report, jobs, procs=procs, budget_s=cfg["budget_s"], chunk=cfg.get("chunk", 20),
                     run_timeout=cfg.get("run_timeout", 300.0), min_budget=cfg.get("min_budget", 60.0), phase="search")
        # 4. post phases (real-binary legs etc.)
        if not report.violations and not report.harness_errors and hasattr(mod, "post_phases"):
            mod.post_phases(report, cfg, procs)
        # 5. determinism self-check: re-run a sample of seeded runs in this (other) process
        if not report.violations and not report.harness_errors and report.digests:
            mism = []
            idxs = sorted(report.digests)[: cfg.get("selfcheck_runs", 8)]
            for i in idxs:
                r = run_once(mod.LEGS[i[1]], prop, rng=substream(prop, seed, i[0], i[1]), tier=tier)
                if r.digest != report.digests[i]:
                    mism.append(list(i))
            report.extra["determinism_selfcheck"] = {"reexecuted_in_parent": len(idxs), "mismatches": mism}
            if mism:
                report.harness_errors.append(("nondeterminism", f"digest mismatch on re-execution of runs {mism}"))
        # known findings met during the search
        for kid in sorted(report.known_hit):
            if kid in known and not any(kid in l for l in report.known_lines):
                line = f"KNOWN-FINDING: property={prop} {kid}: {known[kid]['what']}"
                print(line, flush=True)
                report.known_lines.append(line)
        # report violations
        # one report per violation class: the shortest minimised trace of each (at most 3 classes)
        by_class: dict = {}
        for key, r, payload in report.violations:
            c = payload["vclass"] if payload else "?"
            cur = by_class.get(c)
            if cur is None or (payload and cur[2] and len(payload["values"]) < len(cur[2]["values"])):
                by_class[c] = (key, r, payload)
        report.extra["violation_classes_seen"] = {c: sum(1 for _, _, p in report.violations if (p["vclass"] if p else "?") == c) for c in by_class}
        for key, r, payload in list(by_class.values())[:3]:
            if payload is None:
                report.harness_errors.append(("minimise", r.message))
                continue
            path = write_replay(report, key, r, payload)
            ok, out = (True, "") if payload.get("no_verify") else verify_replay_fresh(prop, path)
            if not ok:
                # A violation that does not replay in a fresh interpreter is a harness defect, not a finding.
                report.harness_errors.append(("replay-not-reproduced", f"{path}: {out[-800:]}"))
                continue
            print(f"violation class={payload['vclass']}: {payload['message'][:600]}")
            print(f"minimised {payload['original_len']} -> {len(payload['values'])} decisions in {payload['minimise']['tests']} executions")
            print(f"VIOLATION property={prop} replay={path}", flush=True)
            exit_code = 1
        if report.harness_errors:
            for h in report.harness_errors[:5]:
                print(f"HARNESS-ERROR {h[0]}: {str(h[1])[-3000:]}", file=sys.stderr, flush=True)
            if exit_code == 0:
                exit_code = 2
    except Exception as e:
        import traceback
        traceback.print_exc()
        report.harness_errors.append((type(e).__name__, repr(e)))
        exit_code = 2
    try:
        write_evidence(mod, report, exit_code)
    except Exception:
        import traceback
        traceback.print_exc()
        exit_code = exit_code or 2
    wall = time.monotonic() - report.t0
    print(f"{prop} {tier}: runs={report.evaluations} distinct_nontrivial={len(report.sigs)} sim_steps={report.steps} "
          f"faults_fired={sum(report.faults.values())} wall={wall:.1f}s exit={exit_code}", flush=True)
    return exit_code


def main_replay(modname: str, path: str) -> int:
    mod = importlib.import_module(modname)
    doc = json.loads(Path(path).read_text())
    prop = mod.PROPERTY
    mod.warmup(doc.get("tier", "quick"))
    r = run_once(mod.LEGS[doc.get("leg") or mod.DEFAULT_LEG], prop, values=doc["values"], tier=doc.get("tier", "quick"))
    print(f"replay verdict={r.verdict} class={r.vclass} digest={r.digest}")
    print(f"message: {r.message[:2000]}")
    want_c, want_d = doc.get("violation_class"), doc.get("expected_digest")
    if r.verdict == "violation":
        same = (r.vclass == want_c) and (want_d in (None, r.digest))
        if same:
            print("REPLAY-REPRODUCED (same violation class and event-log digest)")
        else:
            print(f"REPLAY-DIFFERS expected class={want_c} digest={want_d}")
        print(f"VIOLATION property={prop} replay={path}")
        return 1
    if r.verdict == "harness_error":
        print(r.message, file=sys.stderr)
        return 2
    print("replay did not violate the property on this tree")
    return 0
