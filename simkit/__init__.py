"""Deterministic-simulation kit shared by all hiten checks (DESIGN.md section 2)."""
