"""./check <ID> --tier quick|thorough [--budget-s N] [--runs N] [--procs N] | --replay <file>"""
from __future__ import annotations

import argparse
import os
import sys

CHECKS = {"C05": "checks.c05", "C06": "checks.c06", "C13": "checks.c13", "C14": "checks.c14", "C20": "checks.c20"}


def main(argv=None) -> int:
    ap = argparse.ArgumentParser(prog="check")
    ap.add_argument("prop")
    ap.add_argument("--tier", default=os.environ.get("VERIF_TIER", "quick"), choices=["quick", "thorough"])
    ap.add_argument("--budget-s", type=float, default=None)
    ap.add_argument("--runs", type=int, default=None)
    ap.add_argument("--procs", type=int, default=None)
    ap.add_argument("--replay", default=None)
    a = ap.parse_args(argv)
    prop = a.prop.upper()
    if prop not in CHECKS:
        print(f"unknown property {prop}", file=sys.stderr)
        return 2
    import logging
    logging.disable(logging.CRITICAL)  # hiten logs on failure paths; keep stdout for the protocol lines
    from . import driver
    if a.replay:
        return driver.main_replay(CHECKS[prop], a.replay)
    seed = int(os.environ.get("VERIF_SEED", "0") or 0)
    return driver.main_check(CHECKS[prop], a.tier, seed, budget_s=a.budget_s, max_runs=a.runs, procs=a.procs)


if __name__ == "__main__":
    sys.exit(main())
