"""One integer decides everything: seeded sub-streams and recorded decisions.

A run is a pure function of a *choice sequence*: a list of small integers.
In search mode the sequence is drawn from a PRNG derived from
(property, VERIF_SEED, run index) and recorded; in replay mode it is read back.
Value 0 is always the simplest alternative (no fault, no context switch,
smallest size), a read past the end of a replayed sequence yields 0 and an
out-of-range value is clamped to 0, so every list of non-negative integers is a
valid choice sequence -- which is what makes delta-debugging of schedules and
fault traces possible without any knowledge of their structure.

Nothing in this module reads a clock or draws from a PRNG on a logging path.
"""
from __future__ import annotations

import hashlib
import json
import random
from typing import Any, Sequence


def substream(prop: str, seed: int, run: int, stream: str = "main") -> random.Random:
    h = hashlib.sha256(f"{prop}/{seed}/{run}/{stream}".encode()).digest()
    return random.Random(int.from_bytes(h[:16], "big"))


class Decisions:
    """Source of every nondeterministic choice of one simulated run."""

    __slots__ = ("rng", "replay", "pos", "record", "limit")

    def __init__(self, rng: random.Random | None = None, replay: Sequence[int] | None = None,
                 limit: int = 2_000_000):
        if (rng is None) == (replay is None):
            raise ValueError("exactly one of rng / replay")
        self.rng = rng
        self.replay = None if replay is None else list(replay)
        self.pos = 0
        self.record: list[tuple[int, int, str]] = []
        self.limit = limit

    # -- core ---------------------------------------------------------
    def choose(self, n: int, label: str, weights: Sequence[float] | None = None) -> int:
        """Return an integer in [0, n). n <= 1 consumes nothing."""
        if n <= 1:
            return 0
        if len(self.record) >= self.limit:
            raise StepCapExceeded(f"decision cap {self.limit} reached at {label}")
        if self.replay is not None:
            v = self.replay[self.pos] if self.pos < len(self.replay) else 0
            self.pos += 1
            if not (0 <= v < n):
                v = 0
        elif weights is None:
            v = self.rng.randrange(n)
        else:
            tot = float(sum(weights))
            x = self.rng.random() * tot
            acc = 0.0
            v = n - 1
            for i, w in enumerate(weights):
                acc += w
                if x < acc:
                    v = i
                    break
        self.record.append((v, n, label))
        return v

    # -- conveniences --------------------------------------------------
    def flag(self, label: str, p: float = 0.5) -> bool:
        """True with probability p in search mode; 0/False is the simple case."""
        return self.choose(2, label, (1.0 - p, p)) == 1

    def pick(self, seq: Sequence[Any], label: str, weights: Sequence[float] | None = None) -> Any:
        return seq[self.choose(len(seq), label, weights)]

    def int_between(self, lo: int, hi: int, label: str) -> int:
        return lo + self.choose(hi - lo + 1, label)

    def values(self) -> list[int]:
        return [v for v, _, _ in self.record]

    def labelled(self) -> list[list]:
        return [[v, n, lab] for v, n, lab in self.record]


class StepCapExceeded(Exception):
    """A per-run cap was hit: classified as harness_error, never as a violation."""


class EventLog:
    """Append-only list of small JSON-able tuples; its SHA-256 is the run digest."""

    __slots__ = ("events", "_h", "keep")

    def __init__(self, keep: int = 4000):
        self.events: list = []
        self._h = hashlib.sha256()
        self.keep = keep

    def add(self, *ev) -> None:
        s = json.dumps(ev, separators=(",", ":"), default=_jsonable)
        self._h.update(s.encode())
        self._h.update(b"\n")
        if len(self.events) < self.keep:
            self.events.append(ev)

    def digest(self) -> str:
        return self._h.hexdigest()


def _jsonable(o):
    import numpy as np
    if isinstance(o, np.ndarray):
        return ["nd", str(o.dtype), list(o.shape), hashlib.sha256(np.ascontiguousarray(o).tobytes()).hexdigest()[:16]]
    if isinstance(o, (np.floating,)):
        return float(o).hex()
    if isinstance(o, (np.integer,)):
        return int(o)
    if isinstance(o, (np.bool_,)):
        return bool(o)
    if isinstance(o, complex):
        return [o.real.hex(), o.imag.hex()]
    if isinstance(o, (set, frozenset)):
        return sorted(o)
    if isinstance(o, bytes):
        return o.hex()
    return repr(o)


def fhex(x: float) -> str:
    """Exact textual form of a float for event logs."""
    return float(x).hex()
