"""execute(choice sequence) -> RunResult, plus the minimiser (DESIGN.md 2.2, 2.3)."""
from __future__ import annotations

import time
import traceback
from dataclasses import dataclass, field, asdict
from typing import Any, Callable, Sequence

from .decisions import Decisions, EventLog, StepCapExceeded, substream


class Violation(BaseException):
    """Raised by an oracle (BaseException so that the `except Exception` handlers of the code
    under test cannot swallow it). vclass identifies *what* is violated (property id +
    oracle + observable), not the message text; minimisation preserves it."""

    def __init__(self, vclass: str, message: str, details: Any = None):
        super().__init__(f"{vclass}: {message}")
        self.vclass = vclass
        self.message = message
        self.details = details


class KnownFinding(BaseException):
    """Raised by an oracle when a divergence satisfies a listed known-finding predicate
    and the run cannot usefully continue. (Most checks note the finding and go on.)"""

    def __init__(self, finding_id: str, message: str):
        super().__init__(f"{finding_id}: {message}")
        self.finding_id = finding_id
        self.message = message


@dataclass
class RunResult:
    verdict: str = "ok"                 # ok | violation | harness_error
    vclass: str = ""
    message: str = ""
    digest: str = ""
    sig: str = ""                       # distinctness signature (config + schedule signature)
    nontrivial: bool = False
    steps: int = 0                      # simulated steps (scheduler steps / operations / corrector calls)
    faults: dict = field(default_factory=dict)   # fault kind -> times it actually fired
    probes: dict = field(default_factory=dict)   # rare-branch counters
    sample: Any = None
    known: list = field(default_factory=list)    # ids of known findings met by this run
    decisions: list = field(default_factory=list)
    events: list = field(default_factory=list)
    n_decisions: int = 0

    def slim(self) -> "RunResult":
        """Drop bulky fields before crossing a process boundary for ok runs."""
        if self.verdict == "ok":
            self.decisions = []
            self.events = []
        return self


class RunCtx:
    """What one simulated run gets: decisions, event log, counters."""

    def __init__(self, ds: Decisions, prop: str, tier: str = "quick"):
        self.ds = ds
        self.log = EventLog()
        self.prop = prop
        self.tier = tier
        self.faults: dict[str, int] = {}
        self.probes: dict[str, int] = {}
        self.steps = 0
        self.known: list[str] = []
        self.sample: Any = None
        self.sig_parts: list = []
        self.nontrivial = False

    def fault(self, kind: str, n: int = 1) -> None:
        self.faults[kind] = self.faults.get(kind, 0) + n

    def probe(self, name: str, n: int = 1) -> None:
        self.probes[name] = self.probes.get(name, 0) + n

    def note_known(self, finding_id: str) -> None:
        if finding_id not in self.known:
            self.known.append(finding_id)


def run_once(execute: Callable[[RunCtx], None], prop: str, *, rng=None, values: Sequence[int] | None = None,
             tier: str = "quick", keep_trace: bool = True) -> RunResult:
    ds = Decisions(rng=rng) if values is None else Decisions(replay=values)
    ctx = RunCtx(ds, prop, tier)
    res = RunResult()
    try:
        execute(ctx)
    except Violation as v:
        res.verdict, res.vclass, res.message = "violation", v.vclass, v.message
    except StepCapExceeded as e:
        res.verdict, res.vclass, res.message = "harness_error", "step-cap", str(e)
    except (KeyboardInterrupt, SystemExit):
        raise
    except BaseException as e:  # a crash in the harness is never a defect of hiten
        res.verdict, res.vclass = "harness_error", type(e).__name__
        res.message = "".join(traceback.format_exception(type(e), e, e.__traceback__))[-4000:]
    import hashlib, json
    res.digest = ctx.log.digest()
    res.sig = hashlib.sha256(json.dumps(ctx.sig_parts, default=repr, sort_keys=True).encode()).hexdigest()[:16]
    res.nontrivial = bool(ctx.nontrivial)
    res.steps = ctx.steps
    res.faults = dict(ctx.faults)
    res.probes = dict(ctx.probes)
    res.sample = ctx.sample
    res.known = list(ctx.known)
    res.n_decisions = len(ds.record)
    if keep_trace:
        res.decisions = ds.labelled()
        res.events = ctx.log.events[:400]
    return res


def minimise(execute: Callable[[RunCtx], None], prop: str, values: list[int], vclass: str, *,
             tier: str = "quick", budget_s: float = 90.0, max_tests: int = 1500) -> tuple[list[int], RunResult, dict]:
    """ddmin over the choice sequence, then per-decision simplification.

    A candidate is kept only if it yields a violation of the same class.
    After every success the candidate is replaced by the sequence the run
    actually consumed, so the result is always a normalised, fully consumed
    choice sequence."""
    t0 = time.monotonic()  # wall clock only bounds the search, never enters a run
    tests = 0

    def test(cand: list[int]) -> RunResult | None:
        nonlocal tests
        tests += 1
        r = run_once(execute, prop, values=cand, tier=tier)
        if r.verdict == "violation" and r.vclass == vclass:
            return r
        return None

    best = test(list(values))
    if best is None:  # not reproducible from its own record: a determinism bug in the harness
        raise RuntimeError("violation did not reproduce from its recorded choice sequence")
    cur = [d[0] for d in best.decisions]
    # strip trailing zeros (reads past the end yield 0 anyway)
    def strip(v):
        v = list(v)
        while v and v[-1] == 0:
            v.pop()
        return v
    cur = strip(cur)

    def out_of_budget():
        return tests >= max_tests or (time.monotonic() - t0) > budget_s

    improved = True
    while improved and not out_of_budget():
        improved = False
        # 1. chunk deletion
        n = max(1, len(cur) // 2)
        while n >= 1 and not out_of_budget():
            i = 0
            while i < len(cur) and not out_of_budget():
                cand = cur[:i] + cur[i + n:]
                r = test(cand)
                if r is not None and len(strip([d[0] for d in r.decisions])) < len(cur):
                    cur = strip([d[0] for d in r.decisions]); best = r; improved = True
                else:
                    i += n
            n //= 2
        # 2. zero a chunk (switch -> no switch, fault -> no fault, smaller config)
        n = max(1, len(cur) // 2)
        while n >= 1 and not out_of_budget():
            i = 0
            while i < len(cur) and not out_of_budget():
                if any(cur[i:i + n]):
                    cand = cur[:i] + [0] * len(cur[i:i + n]) + cur[i + n:]
                    r = test(cand)
                    if r is not None:
                        new = strip([d[0] for d in r.decisions])
                        if sum(1 for x in new if x) < sum(1 for x in cur if x) or len(new) < len(cur):
                            cur = new; best = r; improved = True
                i += n
            n //= 2
        # 3. lower individual values
        i = 0
        while i < len(cur) and not out_of_budget():
            if cur[i] > 1:
                for v in (1, cur[i] // 2, cur[i] - 1):
                    if 0 < v < cur[i]:
                        cand = cur[:i] + [v] + cur[i + 1:]
                        r = test(cand)
                        if r is not None:
                            new = strip([d[0] for d in r.decisions])
                            if len(new) <= len(cur) and (len(new) < len(cur) or sum(new) < sum(cur)):
                                cur = new; best = r; improved = True
                                break
            i += 1
    final = test(cur)
    if final is None:
        final = best
        cur = strip([d[0] for d in best.decisions])
    stats = {"tests": tests, "from_len": len(values), "to_len": len(cur), "wall_s": round(time.monotonic() - t0, 2)}
    return cur, final, stats
