"""Synthetic numba kernels with known concurrency behaviour, used to validate sims/prange_sim.py."""
import numpy as np
from numba import get_num_threads, get_thread_id, njit, prange


@njit(parallel=True, cache=False)
def racy_shared_cell(a):
    out = np.zeros(1, dtype=a.dtype)
    for i in prange(a.shape[0]):
        out[0] += a[i]          # data race: read-modify-write of one shared cell
    return out


@njit(parallel=True, cache=False)
def scalar_reduction(a):
    s = 0.0
    for i in prange(a.shape[0]):
        if a[i] == 0:
            continue
        s += a[i]               # numba reduction: per-thread partials
    return s


@njit(parallel=True, cache=False)
def private_rows(a, nslots):
    nT = get_num_threads()
    scratch = np.zeros((nT, nslots), dtype=a.dtype)
    for i in prange(a.shape[0]):
        tid = get_thread_id()
        for j in range(nslots):
            scratch[tid, (i + j) % nslots] += a[i] * (j + 1)
    r = np.zeros(nslots, dtype=a.dtype)
    for t in range(nT):
        r += scratch[t]
    return r


@njit(parallel=True, cache=False)
def racy_shared_scratch(a):
    tmp = np.zeros(1, dtype=a.dtype)
    out = np.zeros(a.shape[0], dtype=a.dtype)
    for i in prange(a.shape[0]):
        tmp[0] = a[i] * 2.0      # shared staging buffer
        out[i] = tmp[0]
    return out


@njit(parallel=True, cache=False)
def two_arg_range_private(a):
    out = np.zeros(a.shape[0], dtype=a.dtype)
    for i in prange(1, a.shape[0]):
        v = a[i] + a[i - 1]      # v is private to the iteration
        out[i] = v
    return out


@njit(cache=False)
def not_parallel_prange(a):
    acc = np.zeros(1, dtype=a.dtype)
    for i in prange(a.shape[0]):  # no parallel=True: an ordinary range
        acc[0] += a[i]
    return acc
