"""Regenerate the choice sequences of the C20 known-finding replays from their operation lists
(run after any change of a C20 alphabet: indices shift).  usage: python -m selftest.make_known_replays"""
import json, sys
from pathlib import Path
VERIF = Path(__file__).resolve().parent.parent
sys.path.insert(0, str(VERIF))
from checks import c20_orbit as o, c20_cm as c  # noqa: E402

OPS = {
    "C20-K1-second-roundtrip-resurrects-cleared-values": ("orbit", 0, [("set_period", "abs"), ("save_load",), ("set_period", "none"), ("save_load",)]),
    "C20-K2-stored-map-section-survives-degree-change": ("cm", None, [("map_compute", 0, 0), ("setdeg", 5), ("map_points", 0)]),
    "C20-K3-user-set-correction-options-lost-by-save-load": ("orbit", 3, [("set_opts", 0), ("save_load",), ("correct_default",)]),
}
p = VERIF / "known_findings.json"
d = json.loads(p.read_text())
for e in d["known"]:
    if e["id"] in OPS:
        kind, spec, ops = OPS[e["id"]]
        if kind == "orbit":
            e["replay_values"] = [0, 0, spec, 0] + [o.ALPHABET.index(x) + 1 for x in ops] + [0]
        else:
            e["replay_values"] = [1, 0, 0, 0, 0, 0, 0] + [c.ALPHABET.index(x) + 1 for x in ops] + [0]
        e["replay_ops"] = [list(x) for x in ops]
        print(e["id"], e["replay_values"])
p.write_text(json.dumps(d, indent=1))
