"""Fidelity self-test of the prange simulator on synthetic kernels (selftest/prange_kernels.py):
race-free kernels must agree with the compiled single-thread result under every simulated schedule,
racy kernels must be caught within the sampled schedules.  usage: python -m selftest.prange_sim_selftest"""
from __future__ import annotations

import json
import sys
from pathlib import Path

import numpy as np

VERIF = Path(__file__).resolve().parent.parent
sys.path.insert(0, str(VERIF))


def main() -> int:
    import numba
    numba.set_num_threads(1)
    from selftest import prange_kernels as K
    from sims.prange_sim import PrangeSim, POLICIES, PARTITIONS
    from simkit.decisions import Decisions, substream
    sim = PrangeSim([K])
    a = np.arange(1.0, 13.0)
    cases = {
        "racy_shared_cell": (K.racy_shared_cell, (a,), "racy"),
        "scalar_reduction": (K.scalar_reduction, (np.array([1.0, 0.0, 2.0, 3.0, 0.0, 4.0, 5.0]),), "exact"),
        "private_rows": (K.private_rows, (a, 5), "exact"),
        "racy_shared_scratch": (K.racy_shared_scratch, (a,), "racy"),
        "two_arg_range_private": (K.two_arg_range_private, (a,), "exact"),
        "not_parallel_prange": (K.not_parallel_prange, (a,), "exact"),
    }
    out, bad = {}, []
    out["kernels_detected"] = sim.kernels
    for name, (disp, args, kind) in cases.items():
        ref = disp(*[x.copy() if isinstance(x, np.ndarray) else x for x in args])
        if not sim.has(disp):
            fn = disp.py_func  # not simulated (no parallel region): must simply be absent from the simulated set
            out[name] = {"simulated": False}
            if kind != "exact" or name != "not_parallel_prange":
                bad.append(f"{name}: expected to be simulated")
            continue
        fn = sim.fn(disp)
        mism = 0
        N = 400
        for i in range(N):
            ds = Decisions(rng=substream("selftest", 0, i, name))
            nT = ds.pick([2, 3, 4, 5, 8], "nT")
            sim.begin_run(ds, nT, ds.pick(PARTITIONS, "partition"), ds.pick(POLICIES, "policy"), 2)
            got = fn(*[x.copy() if isinstance(x, np.ndarray) else x for x in args])
            if not np.array_equal(np.asarray(got), np.asarray(ref)):
                mism += 1
        out[name] = {"simulated": True, "schedules": N, "mismatching": mism, "expected": kind}
        if kind == "exact" and mism:
            bad.append(f"{name}: {mism} schedules disagree with the compiled result although the kernel is race-free")
        if kind == "racy" and not mism:
            bad.append(f"{name}: the race was not found in {N} schedules")
    out["problems"] = bad
    print(json.dumps(out, indent=1))
    (VERIF / "selftest" / "prange_sim_selftest_results.json").write_text(json.dumps(out, indent=1))
    return 1 if bad else 0


if __name__ == "__main__":
    sys.exit(main())
