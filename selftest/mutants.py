"""Hand-written mutants of /repo/src used by selftest/sensitivity.py (never applied to /repo itself)."""
ALG = "hiten/algorithms/polynomial/algebra.py"
OPS = "hiten/algorithms/polynomial/operations.py"
BASE = "hiten/algorithms/polynomial/base.py"
PC = "hiten/algorithms/continuation/backends/pc.py"
STEPB = "hiten/algorithms/continuation/stepping/base.py"
SUPPORT = "hiten/algorithms/continuation/stepping/support.py"
SEC = "hiten/algorithms/continuation/stepping/sc/base.py"

ENGINE = "hiten/algorithms/poincare/centermanifold/engine.py"
CMBACK = "hiten/algorithms/poincare/centermanifold/backend.py"
CMINTF = "hiten/algorithms/poincare/centermanifold/interfaces.py"

ORBSVC = "hiten/algorithms/types/services/orbits.py"
CMSVC = "hiten/algorithms/types/services/center.py"
MANSVC = "hiten/algorithms/types/services/manifold.py"
BASESVC = "hiten/algorithms/types/services/base.py"

NEWTON = "hiten/algorithms/corrector/backends/newton.py"
ARMIJO = "hiten/algorithms/corrector/stepping/armijo.py"
PLAIN = "hiten/algorithms/corrector/stepping/plain.py"

MUTANTS = [
    # ------------------------------------------------------------------ C06
    {"id": "c06-shared-row", "property": "C06", "what": "_poly_mul accumulates into one shared scratch row (classic lost update)",
     "edits": [(ALG, "scratch[tid, idx] += pi * qj      # no race", "scratch[0, idx] += pi * qj")]},
    {"id": "c06-rows-minus-one", "property": "C06", "what": "_poly_mul allocates nT-1 scratch rows",
     "edits": [(ALG, "scratch = np.zeros((nT, out_len), dtype=p.dtype)   # private copies", "scratch = np.zeros((max(nT - 1, 1), out_len), dtype=p.dtype)")]},
    {"id": "c06-reduce-minus-one", "property": "C06", "what": "_poly_diff reduction skips the last thread's row",
     "edits": [(ALG, "    dp = np.zeros(out_size, dtype=p.dtype)\n    for tid in range(nT):", "    dp = np.zeros(out_size, dtype=p.dtype)\n    for tid in range(max(nT - 1, 1)):")]},
    {"id": "c06-tid-hoisted-diff-ok", "property": "C06", "expect": "quiet",
     "what": "NON-ALARM: _poly_diff reads the thread id once outside the loop -- all threads share row 0, but d/dx_v maps monomials to slots injectively, so no two iterations touch the same cell",
     "edits": [(ALG, "    scratch_exp = np.empty(6, dtype=np.int64)           # <- NEW  (one per thread chunk)\n    for i in prange(p.shape[0]):\n        tid = get_thread_id()\n",
                "    scratch_exp = np.empty(6, dtype=np.int64)\n    tid = get_thread_id()\n    for i in prange(p.shape[0]):\n")]},
    {"id": "c06-tid-hoisted-mul", "property": "C06", "what": "_poly_mul reads the thread id once, outside the parallel loop",
     "edits": [(ALG, "    scratch = np.zeros((nT, out_len), dtype=p.dtype)   # private copies\n\n    for i in prange(p.shape[0]):\n        tid = get_thread_id()          # -> row in scratch\n",
                "    scratch = np.zeros((nT, out_len), dtype=p.dtype)   # private copies\n    tid = get_thread_id()\n    for i in prange(p.shape[0]):\n")]},
    {"id": "c06-shared-ks", "property": "C06", "what": "_poly_mul hoists the exponent-sum buffer out of the parallel loop (shared scratch array)",
     "edits": [(ALG, "    scratch = np.zeros((nT, out_len), dtype=p.dtype)   # private copies\n", "    scratch = np.zeros((nT, out_len), dtype=p.dtype)   # private copies\n    ks = np.empty(N_VARS, dtype=np.int64)\n"),
               (ALG, "            ks = np.empty(N_VARS, dtype=np.int64)\n            for m in range(N_VARS):", "            for m in range(N_VARS):")]},
    {"id": "c06-jacobian-parallel", "property": "C06", "what": "parallel=True added to _polynomial_jacobian (shared list append inside prange)",
     "edits": [(OPS, "@njit(fastmath=FASTMATH, cache=False)\ndef _polynomial_jacobian(", "@njit(fastmath=FASTMATH, cache=False, parallel=True)\ndef _polynomial_jacobian(")]},
    {"id": "c06-diff-coeff", "property": "C06", "what": "_poly_diff multiplies by (exp-1) instead of exp",
     "edits": [(ALG, "scratch[tid, idx] += coeff * exp  # race-free write", "scratch[tid, idx] += coeff * (exp - 1)")]},
    {"id": "c06-4bit-pack", "property": "C06", "what": "_pack_multiindex masks k[5] with 4 bits (exponents >= 16 collide)",
     "edits": [(BASE, "        | ((k[5] & 0x3F) << 24)\n    )\n    return np.uint32(packed) # Ensure", "        | ((k[5] & 0x0F) << 24)\n    )\n    return np.uint32(packed) # Ensure")]},
    {"id": "c06-integrate-parallel-ok", "property": "C06", "expect": "quiet",
     "what": "NON-ALARM: _poly_integrate parallelised with a direct ip[idx] += (injective slot map, no conflict)",
     "edits": [(ALG, "@njit(fastmath=FASTMATH, cache=False)\ndef _poly_integrate(", "@njit(fastmath=FASTMATH, cache=False, parallel=True)\ndef _poly_integrate("),
               (ALG, "    ip = np.zeros(out_size, dtype=p.dtype)\n\n    for i in range(p.shape[0]):", "    ip = np.zeros(out_size, dtype=p.dtype)\n\n    for i in prange(p.shape[0]):")]},
    {"id": "c06-reduce-reordered-ok", "property": "C06", "expect": "quiet",
     "what": "NON-ALARM: _poly_mul reduces the scratch rows in reverse order",
     "edits": [(ALG, "    r = np.zeros(out_len, dtype=p.dtype)\n    for tid in range(nT):\n        r += scratch[tid]", "    r = np.zeros(out_len, dtype=p.dtype)\n    for tid in range(nT - 1, -1, -1):\n        r += scratch[tid]")]},
    # ------------------------------------------------------------------ C13
    {"id": "c13-retry-off-by-one", "property": "C13", "what": "gives up one retry early (attempt >= max_retries)",
     "edits": [(PC, "if attempt > int(request.max_retries_per_step):", "if attempt >= int(request.max_retries_per_step):")]},
    {"id": "c13-no-clamp-on-reject", "property": "C13", "what": "default halving not clamped to [step_min, step_max]",
     "edits": [(STEPB, "            new_step = step * 0.5\n        return self._clamp_step(new_step)", "            return step * 0.5\n        return self._clamp_step(new_step)")]},
    {"id": "c13-clamp-drops-sign", "property": "C13", "what": "_clamp_step returns magnitudes (sign lost)",
     "edits": [(STEPB, "        return np.sign(vec) * mag", "        return mag")]},
    {"id": "c13-accepted-not-counted", "property": "C13", "what": "accepted_count incremented only for members after the second",
     "edits": [(PC, "                    accepted_count += 1\n", "                    accepted_count += 1 if len(family) != 3 else 0\n")]},
    {"id": "c13-reject-counted-on-raise-only", "property": "C13", "what": "rejected_count not incremented when the corrector returns converged=False without raising",
     "edits": [(PC, "                except Exception as e:\n                    converged = False\n                    res_norm = np.nan\n", "                except Exception as e:\n                    converged = False\n                    res_norm = np.nan\n                    rejected_count += 1\n"),
               (PC, "                rejected_count += 1\n                attempt += 1\n", "                attempt += 1\n")]},
    {"id": "c13-secant-step0", "property": "C13", "what": "secant prediction uses step[0] instead of the step norm",
     "edits": [(SEC, "ds_scalar = float(step) if np.ndim(step) == 0 else float(np.linalg.norm(step))", "ds_scalar = float(step) if np.ndim(step) == 0 else float(np.ravel(step)[0])")]},
    {"id": "c13-tangent-stale", "property": "C13", "what": "secant tangent not updated on accept",
     "edits": [(SUPPORT, "        self._tangent = None if norm == 0.0 else flat / norm", "        self._tangent = self._tangent if self._tangent is not None else (None if norm == 0.0 else flat / norm)")]},
    {"id": "c13-target-stop-removed", "property": "C13", "what": "the original defect: leaving the target interval does not stop generation",
     "edits": [(PC, "                        left_target = True\n", "                        pass\n")]},
    {"id": "c13-stale-corrected-leak", "property": "C13", "what": "a raising corrector leaves the previous iteration's converged flag (stale member appended again)",
     "edits": [(PC, "                except Exception as e:\n                    converged = False\n                    res_norm = np.nan\n", "                except Exception as e:\n                    res_norm = np.nan\n")]},
    # ------------------------------------------------------------------ C14
    {"id": "c14-shared-accumulators", "property": "C14", "what": "per-worker accumulation lists hoisted out of _worker (shared between workers)",
     "edits": [(ENGINE, "        def _worker(chunk: np.ndarray):\n            states_accum, times_accum = [], []\n", "        states_accum, times_accum = [], []\n\n        def _worker(chunk: np.ndarray):\n")]},
    {"id": "c14-times-submission-order", "property": "C14", "what": "times gathered in submission order while states are gathered in completion order (rows misaligned)",
     "edits": [(ENGINE, "                if s.size:\n                    states_list.append(s)\n                    times_list.append(t)\n",
                "                if s.size:\n                    states_list.append(s)\n            times_list = [f.result()[1] for f in futures if f.result()[0].size]\n")]},
    {"id": "c14-no-enforce-section", "property": "C14", "what": "enforce_section_coordinate returns the states unchanged",
     "edits": [(CMINTF, "        out = np.array(arr, copy=True, order=\"C\")\n        out[:, idx] = 0.0\n        return out", "        out = np.array(arr, copy=True, order=\"C\")\n        return out")]},
    {"id": "c14-direction-inverted", "property": "C14", "what": "direction test inverted for q3 sections in _detect_crossing",
     "edits": [(CMBACK, "        good_dir = state_new[n_dof + 2] > 0.0", "        good_dir = state_new[n_dof + 2] < 0.0")]},
    {"id": "c14-tcross-step-end", "property": "C14", "what": "crossing state taken at the step end instead of the Hermite-refined crossing (alpha ignored for q2)",
     "edits": [(CMBACK, "            q2p = _hermite_scalar(alpha, state_old[1],       state_new[1],       rhs_old[1],       rhs_new[1],       dt)", "            q2p = _hermite_scalar(1.0 - alpha, state_old[1],       state_new[1],       rhs_old[1],       rhs_new[1],       dt)")]},
    {"id": "c14-exception-swallowed", "property": "C14", "what": "a failing worker is silently skipped when gathering",
     "edits": [(ENGINE, "                s, t = fut.result()\n", "                try:\n                    s, t = fut.result()\n                except Exception:\n                    continue\n")]},
    {"id": "c14-last-chunk-dropped", "property": "C14", "what": "the last chunk of seeds is dropped when more than one worker is used",
     "edits": [(ENGINE, "        chunks = np.array_split(seeds0, n_workers_eff)\n", "        chunks = np.array_split(seeds0, n_workers_eff)\n        chunks = chunks[:-1] if len(chunks) > 1 else chunks\n")]},
    {"id": "c14-prange-shared-scratch", "property": "C14", "what": "_poincare_map stages its per-seed result in one scratch array shared by all prange iterations",
     "edits": [(CMBACK, "    t_out = np.zeros(n_seeds, dtype=np.float64)\n\n    for i in prange(n_seeds):", "    t_out = np.zeros(n_seeds, dtype=np.float64)\n    tmp = np.zeros(5, dtype=np.float64)\n\n    for i in prange(n_seeds):"),
               (CMBACK, "        if flag == 1:\n            success[i] = 1\n            q2p_out[i] = q2_new\n            p2p_out[i] = p2_new\n            q3p_out[i] = q3_new\n            p3p_out[i] = p3_new\n            t_out[i] = t_cross\n",
                "        if flag == 1:\n            tmp[0] = q2_new\n            tmp[1] = p2_new\n            tmp[2] = q3_new\n            tmp[3] = p3_new\n            tmp[4] = t_cross\n            success[i] = 1\n            q2p_out[i] = tmp[0]\n            p2p_out[i] = tmp[1]\n            q3p_out[i] = tmp[2]\n            p3p_out[i] = tmp[3]\n            t_out[i] = tmp[4]\n")]},
    {"id": "c14-points-first-two-columns", "property": "C14", "what": "the original defect: 2-d points are always columns (q2,p2) whatever the section",
     "edits": [(CMINTF, "        points = self.plane_points_from_states(outputs.states, section_coord=problem.section_coord)\n", "        points = outputs.states[:, :2] if outputs.states.size else np.empty((0, 2))\n")]},
    {"id": "c14-feedback-unenforced-ok", "property": "C14", "expect": "quiet",
     "what": "NON-ALARM: gather order changed (futures consumed in submission order instead of completion order); the set of rows is unchanged",
     "edits": [(ENGINE, "            for fut in as_completed(futures):\n", "            for fut in futures:\n")]},
    # ------------------------------------------------------------------ C20
    {"id": "c20-period-setter-no-reset", "property": "C20", "what": "the orbit period setter no longer clears the dynamics memo",
     "edits": [(ORBSVC, "            self._trajectory = None\n            self._stability_info = None\n            self.reset()\n", "            self._trajectory = None\n            self._stability_info = None\n")]},
    {"id": "c20-stability-info-kept", "property": "C20", "what": "the period setter keeps _stability_info",
     "edits": [(ORBSVC, "            self._trajectory = None\n            self._stability_info = None\n            self.reset()\n", "            self._trajectory = None\n            self.reset()\n")]},
    {"id": "c20-propagate-key-without-order", "property": "C20", "what": "propagate memo key omits the integration order",
     "edits": [(ORBSVC, 'cache_key = self.make_key("propagate", steps, method, order)', 'cache_key = self.make_key("propagate", steps, method)')]},
    {"id": "c20-degree-setter-keeps-hamsys", "property": "C20", "what": "the centre-manifold degree setter keeps the cached Hamiltonian system",
     "edits": [(CMSVC, "            self._degree = value\n            self._hamsys = None\n", "            self._degree = value\n")]},
    {"id": "c20-manifold-marker-not-restored", "property": "C20", "what": "the manifold's orbit-state marker is created lazily (not restored by load: the stored result is dropped by a round trip)",
     "edits": [(MANSVC, "        self._manifold_result = None\n        self._orbit_state_key = None\n", "        self._manifold_result = None\n")]},
    # ------------------------------------------------------------------ C05
    {"id": "c05-return-after-loop", "property": "C05", "what": "the post-loop block returns the unconverged point instead of raising",
     "edits": [(NEWTON, "        self.on_failure(x, iterations=max_attempts, residual_norm=r_final_norm)\n\n        raise ConvergenceError(", "        self.on_failure(x, iterations=max_attempts, residual_norm=r_final_norm)\n        return CorrectorOutput(x_corrected=x, iterations=max_attempts, residual_norm=r_final_norm, metadata=metadata)\n        raise ConvergenceError(")]},
    {"id": "c05-armijo-fallback-x0-ok", "property": "C05", "expect": "quiet",
     "what": "NON-ALARM w.r.t. the property: the Armijo best-point fallback returns the starting point (the iteration then stalls and ends in ConvergenceError: no unconverged return, no residual increase, no oversized step -- a loss of convergence, which C05 does not speak about)",
     "edits": [(ARMIJO, "            return best_x, best_norm, best_alpha\n", "            return x0, best_norm, best_alpha\n")]},
    {"id": "c05-cap-after-search", "property": "C05", "what": "the step cap is computed but the uncapped step is searched",
     "edits": [(ARMIJO, "                delta = delta * (self.max_delta / delta_norm)\n", "                _capped = delta * (self.max_delta / delta_norm)\n")]},
    {"id": "c05-best-norm-inf", "property": "C05", "what": "best_norm starts at infinity (any trial is an improvement for the fallback)",
     "edits": [(ARMIJO, "        best_norm = current_norm\n", "        best_norm = float(\"inf\")\n")]},
    {"id": "c05-raise-in-search-is-success", "property": "C05", "what": "a residual evaluation that raises inside the line search accepts the trial point",
     "edits": [(ARMIJO, "                alpha *= self.alpha_reduction\n                continue\n\n            # A non-finite trial norm", "                return x_trial, current_norm, alpha\n\n            # A non-finite trial norm")]},
    {"id": "c05-period-is-half-period", "property": "C05", "what": "apply_correction stores the half period as the period",
     "edits": [(ORBSVC, "        self.domain_obj.dynamics.period = 2.0 * half_period\n", "        self.domain_obj.dynamics.period = 1.0 * half_period\n")]},
    {"id": "c05-plain-cap-wrong-norm", "property": "C05", "what": "the plain stepper caps the 2-norm of the step instead of the infinity norm",
     "edits": [(PLAIN, "                delta_norm = float(np.linalg.norm(delta, ord=np.inf))\n", "                delta_norm = float(np.linalg.norm(delta)) / np.sqrt(delta.size) \n")]},
]
