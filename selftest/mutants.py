"""Hand-written mutants of /repo/src used by selftest/sensitivity.py (never applied to /repo itself)."""
ALG = "hiten/algorithms/polynomial/algebra.py"
OPS = "hiten/algorithms/polynomial/operations.py"
BASE = "hiten/algorithms/polynomial/base.py"
PC = "hiten/algorithms/continuation/backends/pc.py"
STEPB = "hiten/algorithms/continuation/stepping/base.py"
SUPPORT = "hiten/algorithms/continuation/stepping/support.py"
SEC = "hiten/algorithms/continuation/stepping/sc/base.py"

MUTANTS = [
    # ------------------------------------------------------------------ C06
    {"id": "c06-shared-row", "property": "C06", "what": "_poly_mul accumulates into one shared scratch row (classic lost update)",
     "edits": [(ALG, "scratch[tid, idx] += pi * qj      # no race", "scratch[0, idx] += pi * qj")]},
    {"id": "c06-rows-minus-one", "property": "C06", "what": "_poly_mul allocates nT-1 scratch rows",
     "edits": [(ALG, "scratch = np.zeros((nT, out_len), dtype=p.dtype)   # private copies", "scratch = np.zeros((max(nT - 1, 1), out_len), dtype=p.dtype)")]},
    {"id": "c06-reduce-minus-one", "property": "C06", "what": "_poly_diff reduction skips the last thread's row",
     "edits": [(ALG, "    dp = np.zeros(out_size, dtype=p.dtype)\n    for tid in range(nT):", "    dp = np.zeros(out_size, dtype=p.dtype)\n    for tid in range(max(nT - 1, 1)):")]},
    {"id": "c06-tid-hoisted-diff-ok", "property": "C06", "expect": "quiet",
     "what": "NON-ALARM: _poly_diff reads the thread id once outside the loop -- all threads share row 0, but d/dx_v maps monomials to slots injectively, so no two iterations touch the same cell",
     "edits": [(ALG, "    scratch_exp = np.empty(6, dtype=np.int64)           # <- NEW  (one per thread chunk)\n    for i in prange(p.shape[0]):\n        tid = get_thread_id()\n",
                "    scratch_exp = np.empty(6, dtype=np.int64)\n    tid = get_thread_id()\n    for i in prange(p.shape[0]):\n")]},
    {"id": "c06-tid-hoisted-mul", "property": "C06", "what": "_poly_mul reads the thread id once, outside the parallel loop",
     "edits": [(ALG, "    scratch = np.zeros((nT, out_len), dtype=p.dtype)   # private copies\n\n    for i in prange(p.shape[0]):\n        tid = get_thread_id()          # -> row in scratch\n",
                "    scratch = np.zeros((nT, out_len), dtype=p.dtype)   # private copies\n    tid = get_thread_id()\n    for i in prange(p.shape[0]):\n")]},
    {"id": "c06-shared-ks", "property": "C06", "what": "_poly_mul hoists the exponent-sum buffer out of the parallel loop (shared scratch array)",
     "edits": [(ALG, "    scratch = np.zeros((nT, out_len), dtype=p.dtype)   # private copies\n", "    scratch = np.zeros((nT, out_len), dtype=p.dtype)   # private copies\n    ks = np.empty(N_VARS, dtype=np.int64)\n"),
               (ALG, "            ks = np.empty(N_VARS, dtype=np.int64)\n            for m in range(N_VARS):", "            for m in range(N_VARS):")]},
    {"id": "c06-jacobian-parallel", "property": "C06", "what": "parallel=True added to _polynomial_jacobian (shared list append inside prange)",
     "edits": [(OPS, "@njit(fastmath=FASTMATH, cache=False)\ndef _polynomial_jacobian(", "@njit(fastmath=FASTMATH, cache=False, parallel=True)\ndef _polynomial_jacobian(")]},
    {"id": "c06-diff-coeff", "property": "C06", "what": "_poly_diff multiplies by (exp-1) instead of exp",
     "edits": [(ALG, "scratch[tid, idx] += coeff * exp  # race-free write", "scratch[tid, idx] += coeff * (exp - 1)")]},
    {"id": "c06-4bit-pack", "property": "C06", "what": "_pack_multiindex masks k[5] with 4 bits (exponents >= 16 collide)",
     "edits": [(BASE, "        | ((k[5] & 0x3F) << 24)\n    )\n    return np.uint32(packed) # Ensure", "        | ((k[5] & 0x0F) << 24)\n    )\n    return np.uint32(packed) # Ensure")]},
    {"id": "c06-integrate-parallel-ok", "property": "C06", "expect": "quiet",
     "what": "NON-ALARM: _poly_integrate parallelised with a direct ip[idx] += (injective slot map, no conflict)",
     "edits": [(ALG, "@njit(fastmath=FASTMATH, cache=False)\ndef _poly_integrate(", "@njit(fastmath=FASTMATH, cache=False, parallel=True)\ndef _poly_integrate("),
               (ALG, "    ip = np.zeros(out_size, dtype=p.dtype)\n\n    for i in range(p.shape[0]):", "    ip = np.zeros(out_size, dtype=p.dtype)\n\n    for i in prange(p.shape[0]):")]},
    {"id": "c06-reduce-reordered-ok", "property": "C06", "expect": "quiet",
     "what": "NON-ALARM: _poly_mul reduces the scratch rows in reverse order",
     "edits": [(ALG, "    r = np.zeros(out_len, dtype=p.dtype)\n    for tid in range(nT):\n        r += scratch[tid]", "    r = np.zeros(out_len, dtype=p.dtype)\n    for tid in range(nT - 1, -1, -1):\n        r += scratch[tid]")]},
    # ------------------------------------------------------------------ C13
    {"id": "c13-retry-off-by-one", "property": "C13", "what": "gives up one retry early (attempt >= max_retries)",
     "edits": [(PC, "if attempt > int(request.max_retries_per_step):", "if attempt >= int(request.max_retries_per_step):")]},
    {"id": "c13-no-clamp-on-reject", "property": "C13", "what": "default halving not clamped to [step_min, step_max]",
     "edits": [(STEPB, "            new_step = step * 0.5\n        return self._clamp_step(new_step)", "            return step * 0.5\n        return self._clamp_step(new_step)")]},
    {"id": "c13-clamp-drops-sign", "property": "C13", "what": "_clamp_step returns magnitudes (sign lost)",
     "edits": [(STEPB, "        return np.sign(vec) * mag", "        return mag")]},
    {"id": "c13-accepted-not-counted", "property": "C13", "what": "accepted_count incremented only for members after the second",
     "edits": [(PC, "                    accepted_count += 1\n", "                    accepted_count += 1 if len(family) != 3 else 0\n")]},
    {"id": "c13-reject-counted-on-raise-only", "property": "C13", "what": "rejected_count not incremented when the corrector returns converged=False without raising",
     "edits": [(PC, "                except Exception as e:\n                    converged = False\n                    res_norm = np.nan\n", "                except Exception as e:\n                    converged = False\n                    res_norm = np.nan\n                    rejected_count += 1\n"),
               (PC, "                rejected_count += 1\n                attempt += 1\n", "                attempt += 1\n")]},
    {"id": "c13-secant-step0", "property": "C13", "what": "secant prediction uses step[0] instead of the step norm",
     "edits": [(SEC, "ds_scalar = float(step) if np.ndim(step) == 0 else float(np.linalg.norm(step))", "ds_scalar = float(step) if np.ndim(step) == 0 else float(np.ravel(step)[0])")]},
    {"id": "c13-tangent-stale", "property": "C13", "what": "secant tangent not updated on accept",
     "edits": [(SUPPORT, "        self._tangent = None if norm == 0.0 else flat / norm", "        self._tangent = self._tangent if self._tangent is not None else (None if norm == 0.0 else flat / norm)")]},
    {"id": "c13-target-stop-removed", "property": "C13", "what": "the original defect: leaving the target interval does not stop generation",
     "edits": [(PC, "                        left_target = True\n", "                        pass\n")]},
    {"id": "c13-stale-corrected-leak", "property": "C13", "what": "a raising corrector leaves the previous iteration's converged flag (stale member appended again)",
     "edits": [(PC, "                except Exception as e:\n                    converged = False\n                    res_norm = np.nan\n", "                except Exception as e:\n                    res_norm = np.nan\n")]},
]
