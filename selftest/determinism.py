"""Determinism self-test (DESIGN.md section 5): the same (property, VERIF_SEED, run index) must give the same
event-log digest in a fresh interpreter under another PYTHONHASHSEED and with another worker-process count.

usage: python -m selftest.determinism <PROP> [--runs N] [--seed S] [--leg LEG]
Spawns interpreter A (PYTHONHASHSEED=0, runs executed serially in one process) and interpreter B
(PYTHONHASHSEED=4242, runs executed by 8 forked worker processes) and diffs the digests.
Results are appended to selftest/determinism_results.json.
"""
from __future__ import annotations

import argparse
import json
import os
import subprocess
import sys
import time
from pathlib import Path

VERIF = Path(__file__).resolve().parent.parent


def child(prop, leg, seed, lo, hi, procs):
    sys.path.insert(0, str(VERIF))
    import importlib
    import logging
    import warnings
    logging.disable(logging.CRITICAL)
    warnings.filterwarnings("ignore")
    from simkit.cli import CHECKS
    from simkit.decisions import substream
    from simkit.run import run_once
    mod = importlib.import_module(CHECKS[prop])
    mod.warmup("quick")
    leg = leg or mod.DEFAULT_LEG

    def one(i):
        r = run_once(mod.LEGS[leg], prop, rng=substream(prop, seed, i, leg), tier="quick", keep_trace=False)
        return i, r.verdict, r.digest

    if procs <= 1:
        out = [one(i) for i in range(lo, hi)]
    else:
        import multiprocessing
        from concurrent.futures import ProcessPoolExecutor
        global _one
        _one = one
        with ProcessPoolExecutor(procs, mp_context=multiprocessing.get_context("fork")) as ex:
            out = list(ex.map(_call, range(lo, hi)))
    for i, v, d in out:
        print(f"DIGEST {i} {v} {d}", flush=True)


def _call(i):
    return _one(i)


def main():
    ap = argparse.ArgumentParser()
    ap.add_argument("prop")
    ap.add_argument("--runs", type=int, default=200)
    ap.add_argument("--seed", type=int, default=0)
    ap.add_argument("--leg", default="")
    ap.add_argument("--child", default="")
    a = ap.parse_args()
    if a.child:
        lo, hi, procs = map(int, a.child.split(","))
        child(a.prop, a.leg, a.seed, lo, hi, procs)
        return 0
    t0 = time.time()
    res = {}
    procs_list = []
    for name, hs, procs in (("A", "0", 1), ("B", "4242", 8)):
        env = dict(os.environ, PYTHONHASHSEED=hs, NUMBA_THREADING_LAYER="workqueue", OMP_WAIT_POLICY="PASSIVE", PYTHONDONTWRITEBYTECODE="1")
        cmd = [sys.executable, "-m", "selftest.determinism", a.prop, "--seed", str(a.seed), "--leg", a.leg, "--child", f"0,{a.runs},{procs}"]
        procs_list.append((name, subprocess.Popen(cmd, cwd=str(VERIF), env=env, stdout=subprocess.PIPE, stderr=subprocess.DEVNULL, text=True)))
    for name, p in procs_list:
        so, _ = p.communicate()
        res[name] = {int(l.split()[1]): (l.split()[2], l.split()[3]) for l in so.splitlines() if l.startswith("DIGEST ")}
    mism = [i for i in range(a.runs) if res["A"].get(i) != res["B"].get(i)]
    verdicts = sorted({v for v, _ in res["A"].values()})
    doc = {"property": a.prop, "leg": a.leg or "default", "seed": a.seed, "runs": a.runs, "completed_A": len(res["A"]), "completed_B": len(res["B"]),
           "mismatches": mism, "verdicts_seen": verdicts, "wall_s": round(time.time() - t0, 1),
           "setup": "A: PYTHONHASHSEED=0, serial, one process; B: PYTHONHASHSEED=4242, 8 forked workers; both fresh interpreters"}
    print(json.dumps(doc))
    out = VERIF / "selftest" / "determinism_results.json"
    old = json.loads(out.read_text()) if out.exists() else {}
    old[f"{a.prop}/{a.leg or 'default'}"] = doc
    out.write_text(json.dumps(old, indent=1, sort_keys=True))
    return 1 if (mism or len(res["A"]) != a.runs or len(res["B"]) != a.runs) else 0


if __name__ == "__main__":
    sys.exit(main())
