"""Calibration of the golden bounds of C14's O2/O3 oracles on the unchanged tree (DESIGN.md 3.3).

Runs the real map (1 worker) over the swarm's configuration space, measures for every recorded
(seed -> point) pair the distance to the independent scipy reference and for every point the
energy error, groups by (integrator family, order, dt) and prints the observed maxima together
with the fitted K, r.  The committed checks/c14_calibration.json holds the chosen values with
x10 headroom.  usage: python -m selftest.calibrate_c14 [n_configs]
"""
from __future__ import annotations

import json
import sys
import warnings
from collections import defaultdict
from concurrent.futures import ProcessPoolExecutor
import multiprocessing

import numpy as np

sys.path.insert(0, "/verif")


def one(i):
    import logging
    logging.disable(logging.CRITICAL)
    warnings.filterwarnings("ignore")
    from checks import c14
    from models import cmref
    from simkit.decisions import Decisions, substream
    ds = Decisions(rng=substream("C14cal", 0, i))
    cfg = c14.draw_config(ds, len(c14.ENVS), quick=True)
    recs = []
    real_run = c14._REAL["run"]

    def run_proxy(self, request):
        resp = real_run(self, request)
        recs.append((np.array(request.seeds, float).reshape(-1, 4), np.array(resp.flags), np.array(resp.states, float).reshape(-1, 4), np.array(resp.times, float)))
        return resp

    c14.CMB._CenterManifoldBackend.run = run_proxy
    try:
        res = c14._compute(cfg, 1)
    except Exception as e:
        return None
    finally:
        c14.CMB._CenterManifoldBackend.run = real_run
    ham = c14.ENVS[cfg["env"]]["ham"]
    st, tm = c14._rows(res)
    eerr = max((abs(ham.H(cmref.z_of(r)) - cfg["h0"]) for r in st), default=0.0)
    rerrs = []
    n = 0
    for (seeds, flags, states, times) in recs:
        j = 0
        for k in range(len(seeds)):
            if not flags[k]:
                continue
            pt, tr = states[j], times[j]
            j += 1
            if n >= 6:
                continue
            n += 1
            cands = cmref.reference_return(ham, seeds[k], cfg["section"], float(tr) + 6 * cfg["dt"], cfg["dt"])
            # the same admissible set as the check: ambiguous crossings up to and including the first firmly positive one
            adm = []
            for (t, s4, D, margin) in cands:
                if D > margin:
                    adm.append((t, s4)); break
                if abs(D) <= margin:
                    adm.append((t, s4))
            if not adm or any(b[0] - a[0] < 2.5 * cfg["dt"] for a, b in zip(cands, cands[1:])):
                continue
            best = min(adm, key=lambda a: float(np.max(np.abs(a[1] - pt))))
            amp = float(np.max(np.abs(seeds[k])))
            rerrs.append((float(np.max(np.abs(best[1] - pt))), abs(best[0] - tr), amp))
    return (cfg["method"], cfg["order"], cfg["dt"], cfg["n_iter"], cfg["section"], eerr, rerrs, c14.ENVS[cfg["env"]]["name"], cfg["h0"])


TIER = "quick"


def main(n):
    import logging
    logging.disable(logging.CRITICAL)
    warnings.filterwarnings("ignore")
    from checks import c14
    c14.warmup(TIER)
    ctx = multiprocessing.get_context("fork")
    with ProcessPoolExecutor(14, mp_context=ctx) as ex:
        out = [r for r in ex.map(one, range(n), chunksize=4) if r]
    g_e = defaultdict(list)
    g_r = defaultdict(list)
    worst = []
    for (m, o, dt, ni, sec, eerr, rerrs, envname, h0) in out:
        for (dx, dtm, amp) in rerrs:
            worst.append((dx / max(amp, 1e-3) / (dt * dt if m == "fixed" else 1.0), dtm / (dt * dt if m == "fixed" else 1.0), m, o, dt, envname, h0, sec))
    worst.sort(reverse=True)
    print("worst normalised (dx/amp/dt^2 for fixed):", worst[:6])
    print("worst time (dt_ret/dt^2 for fixed):", sorted(worst, key=lambda w: -w[1])[:6])
    for (m, o, dt, ni, sec, eerr, rerrs, envname, h0) in out:
        g_e[(m, o, dt)].append(eerr / ni)
        for (dx, dtm, amp) in rerrs:
            g_r[(m, o, dt)].append((dx / max(amp, 1e-3), dtm))
    print("family order dt | n | max energy err per iteration | max |dx|/amp | max |dt_ret|")
    for k in sorted(g_e):
        r = g_r.get(k, [])
        print(k, len(g_e[k]), f"{max(g_e[k]):.3e}", f"{max((x[0] for x in r), default=0):.3e}", f"{max((x[1] for x in r), default=0):.3e}", len(r))


if __name__ == "__main__":
    if len(sys.argv) > 2:
        TIER = sys.argv[2]
    main(int(sys.argv[1]) if len(sys.argv) > 1 else 400)
