"""Sensitivity self-test (DESIGN.md section 5): apply a mutant to a scratch copy of /repo/src outside /repo and
/verif, point the quick check at it through PYTHONPATH, require exit 1 + a VIOLATION line (or exit 0 for the
non-alarm mutants), then remove the copy.

usage: python -m selftest.sensitivity [--only ID[,ID..]] [--prop C06] [--budget-s N] [--jobs N]
Results are appended to selftest/sensitivity_results.json.
"""
from __future__ import annotations

import argparse
import json
import os
import shutil
import subprocess
import sys
import tempfile
import time
from concurrent.futures import ThreadPoolExecutor
from pathlib import Path

VERIF = Path(__file__).resolve().parent.parent
sys.path.insert(0, str(VERIF))
from selftest.mutants import MUTANTS  # noqa: E402


def run_mutant(m: dict, budget_s: float | None, procs: int) -> dict:
    tmp = Path(tempfile.mkdtemp(prefix=f"verif_mut_{m['id']}_"))
    try:
        src = tmp / "src"
        shutil.copytree("/repo/src", src, ignore=shutil.ignore_patterns("__pycache__", "_tests", "*.png"))
        for (rel, old, new) in m["edits"]:
            f = src / rel
            text = f.read_text()
            if text.count(old) != 1:
                return {"id": m["id"], "status": "mutant-does-not-apply", "detail": f"{rel}: pattern occurs {text.count(old)} times"}
            f.write_text(text.replace(old, new))
        env = dict(os.environ, PYTHONPATH=str(src), VERIF_EVIDENCE_DIR=str(tmp / "evidence"), VERIF_REPLAY_DIR=str(tmp / "replays"),
                   VERIF_PROCS=str(procs))
        cmd = [str(VERIF / "check"), m["property"], "--tier", "quick"]
        if budget_s:
            cmd += ["--budget-s", str(budget_s)]
        t0 = time.monotonic()
        p = subprocess.run(cmd, env=env, capture_output=True, text=True, timeout=3600)
        wall = time.monotonic() - t0
        viol = [l for l in p.stdout.splitlines() if l.startswith("VIOLATION ")]
        cls = [l for l in p.stdout.splitlines() if l.startswith("violation class=")]
        used_copy = str(src) in p.stdout
        expect = m.get("expect", "caught")
        if not used_copy:
            status = "harness-did-not-import-the-copy"
        elif expect == "caught":
            status = "caught" if (p.returncode == 1 and viol) else f"MISSED(rc={p.returncode})"
        else:
            status = "quiet" if (p.returncode == 0 and not viol) else f"FALSE-ALARM(rc={p.returncode})"
        return {"id": m["id"], "property": m["property"], "what": m["what"], "expect": expect, "status": status, "rc": p.returncode,
                "wall_s": round(wall, 1), "violation_class": cls[:2], "tail": (p.stdout[-600:] + p.stderr[-600:]) if "MISSED" in status or "FALSE" in status or "harness" in status else ""}
    finally:
        shutil.rmtree(tmp, ignore_errors=True)


def main() -> int:
    ap = argparse.ArgumentParser()
    ap.add_argument("--only", default="")
    ap.add_argument("--prop", default="")
    ap.add_argument("--budget-s", type=float, default=None)
    ap.add_argument("--jobs", type=int, default=2)
    a = ap.parse_args()
    sel = [m for m in MUTANTS if (not a.only or m["id"] in a.only.split(",")) and (not a.prop or m["property"] == a.prop)]
    procs = max(2, 16 // a.jobs)
    with ThreadPoolExecutor(a.jobs) as ex:
        results = list(ex.map(lambda m: run_mutant(m, a.budget_s, procs), sel))
    for r in results:
        print(json.dumps(r))
    out = VERIF / "selftest" / "sensitivity_results.json"
    old = json.loads(out.read_text()) if out.exists() else {}
    for r in results:
        old[r["id"]] = r
    out.write_text(json.dumps(old, indent=1, sort_keys=True))
    bad = [r for r in results if r["status"] not in ("caught", "quiet")]
    return 1 if bad else 0


if __name__ == "__main__":
    sys.exit(main())
