#!/bin/bash
# Offline setup: nothing is fetched or built; verify the interpreter and create output directories.
set -e
cd "$(dirname "$0")"
mkdir -p evidence replays
/venv/bin/python - <<'PY'
import sys
import numpy, scipy, numba
print("python", sys.version.split()[0], "numpy", numpy.__version__, "scipy", scipy.__version__, "numba", numba.__version__)
PY
