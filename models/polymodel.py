"""Exact reference model of 6-variable polynomial algebra (DESIGN.md 3.1, oracle (a)).

Polynomials are dicts {exponent 6-tuple: coefficient}; coefficients are exact
Gaussian rationals (pairs of fractions.Fraction).  Operations are written from
their mathematical definitions; nothing is taken from the library.
"""
from __future__ import annotations

from fractions import Fraction
from itertools import product

N = 6


class GQ:
    """Gaussian rational a + b i."""

    __slots__ = ("re", "im")

    def __init__(self, re=0, im=0):
        self.re = Fraction(re)
        self.im = Fraction(im)

    @staticmethod
    def of(x) -> "GQ":
        if isinstance(x, GQ):
            return x
        if isinstance(x, complex):
            return GQ(Fraction(x.real), Fraction(x.imag))
        if hasattr(x, "real") and hasattr(x, "imag") and not isinstance(x, (int, Fraction)):
            return GQ(Fraction(float(x.real)), Fraction(float(x.imag)))
        return GQ(Fraction(x), 0)

    def __add__(self, o):
        o = GQ.of(o)
        return GQ(self.re + o.re, self.im + o.im)

    __radd__ = __add__

    def __sub__(self, o):
        o = GQ.of(o)
        return GQ(self.re - o.re, self.im - o.im)

    def __neg__(self):
        return GQ(-self.re, -self.im)

    def __mul__(self, o):
        o = GQ.of(o)
        return GQ(self.re * o.re - self.im * o.im, self.re * o.im + self.im * o.re)

    __rmul__ = __mul__

    def __truediv__(self, k):
        k = Fraction(k)
        return GQ(self.re / k, self.im / k)

    def __eq__(self, o):
        o = GQ.of(o)
        return self.re == o.re and self.im == o.im

    def __bool__(self):
        return bool(self.re) or bool(self.im)

    def __complex__(self):
        return complex(float(self.re), float(self.im))

    def __repr__(self):
        return f"({self.re}+{self.im}i)" if self.im else f"{self.re}"

    def __pow__(self, n: int):
        r = GQ(1)
        for _ in range(n):
            r = r * self
        return r


Poly = dict  # {exps: GQ}


def clean(p: Poly) -> Poly:
    return {k: v for k, v in p.items() if v}


def add(p: Poly, q: Poly, scale=1) -> Poly:
    r = dict(p)
    s = GQ.of(scale)
    for k, v in q.items():
        r[k] = r.get(k, GQ()) + s * v
    return clean(r)


def mul(p: Poly, q: Poly, max_deg: int | None = None) -> Poly:
    r: Poly = {}
    for ka, va in p.items():
        for kb, vb in q.items():
            k = tuple(a + b for a, b in zip(ka, kb))
            if max_deg is not None and sum(k) > max_deg:
                continue
            r[k] = r.get(k, GQ()) + va * vb
    return clean(r)


def power(p: Poly, n: int, max_deg: int | None = None) -> Poly:
    r: Poly = {(0,) * N: GQ(1)}
    for _ in range(n):
        r = mul(r, p, max_deg)
    return r


def diff(p: Poly, var: int) -> Poly:
    r: Poly = {}
    for k, v in p.items():
        if k[var] == 0:
            continue
        kk = list(k)
        kk[var] -= 1
        kk = tuple(kk)
        r[kk] = r.get(kk, GQ()) + v * k[var]
    return clean(r)


def integrate(p: Poly, var: int) -> Poly:
    r: Poly = {}
    for k, v in p.items():
        kk = list(k)
        kk[var] += 1
        kk = tuple(kk)
        r[kk] = r.get(kk, GQ()) + v / (k[var] + 1)
    return clean(r)


def poisson(p: Poly, q: Poly, max_deg: int | None = None) -> Poly:
    """{p,q} = sum_m dp/dq_m dq/dp_m - dp/dp_m dq/dq_m with variables (q1,q2,q3,p1,p2,p3)."""
    r: Poly = {}
    for m in range(3):
        r = add(r, mul(diff(p, m), diff(q, m + 3)))
        r = add(r, mul(diff(p, m + 3), diff(q, m)), -1)
    if max_deg is not None:
        r = {k: v for k, v in r.items() if sum(k) <= max_deg}
    return clean(r)


def evaluate(p: Poly, point) -> GQ:
    pt = [GQ.of(x) for x in point]
    tot = GQ()
    for k, v in p.items():
        t = v
        for x, e in zip(pt, k):
            if e:
                t = t * (x ** e)
        tot = tot + t
    return tot


def substitute(p: Poly, C, shifts=None, max_deg: int | None = None) -> Poly:
    """x_i -> sum_j C[i][j] y_j (+ shifts[i]); result truncated at max_deg."""
    var = []
    for i in range(N):
        lin: Poly = {}
        for j in range(N):
            c = GQ.of(C[i][j])
            if c:
                e = [0] * N
                e[j] = 1
                lin[tuple(e)] = c
        if shifts is not None and GQ.of(shifts[i]):
            lin[(0,) * N] = GQ.of(shifts[i])
        var.append(lin)
    r: Poly = {}
    for k, v in p.items():
        term: Poly = {(0,) * N: v}
        for i, e in enumerate(k):
            if e:
                term = mul(term, power(var[i], e, max_deg), max_deg)
        r = add(r, term)
    return clean(r)


def truncate(p: Poly, max_deg: int) -> Poly:
    return {k: v for k, v in p.items() if sum(k) <= max_deg}


def homogeneous(p: Poly, d: int) -> Poly:
    return {k: v for k, v in p.items() if sum(k) == d}


def all_exponents(d: int):
    """Every 6-tuple of non-negative integers with sum d (independent enumeration)."""
    for k in product(range(d + 1), repeat=N - 1):
        s = sum(k)
        if s <= d:
            yield (d - s,) + k
