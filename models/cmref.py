"""Independent reference for centre-manifold return maps (DESIGN.md 3.3, oracles O2/O3).

The centre-manifold Hamiltonian is decoded once into explicit (coefficient, exponents)
terms; Hamilton's equations are evaluated by this module's own (numpy) evaluator and
integrated with scipy DOP853.  Nothing of hiten's integrators, RHS evaluation, crossing
detection or interpolation is used.
"""
from __future__ import annotations

import numpy as np
from scipy.integrate import solve_ivp

IDX = {"q2": 1, "q3": 2, "p2": 4, "p3": 5}          # index in the 6-vector (q1,q2,q3,p1,p2,p3)
CONJ = {"q2": 4, "q3": 5, "p2": 1, "p3": 2}
ORDER4 = ("q2", "p2", "q3", "p3")                   # layout of the library's 4-d CM state rows


class CMHamiltonian:
    def __init__(self, poly_blocks, decode):
        """poly_blocks: sequence of coefficient arrays by degree; decode(i, d) -> exponent 6-tuple."""
        coeffs, exps = [], []
        for d, blk in enumerate(poly_blocks):
            blk = np.asarray(blk)
            for i in np.flatnonzero(blk):
                coeffs.append(complex(blk[i]))
                exps.append(decode(int(i), d))
        self.c = np.array(coeffs, dtype=np.complex128)
        self.E = np.array(exps, dtype=np.int64).reshape(-1, 6)
        self.maxdeg = int(self.E.sum(axis=1).max()) if len(exps) else 0
        self.nterms = len(coeffs)

    def _pows(self, z):
        P = np.ones((6, self.maxdeg + 1), dtype=np.float64)
        for e in range(1, self.maxdeg + 1):
            P[:, e] = P[:, e - 1] * z
        return P

    def H(self, z) -> float:
        P = self._pows(np.asarray(z, float))
        m = np.ones(self.nterms)
        for v in range(6):
            m = m * P[v, self.E[:, v]]
        return float(np.sum(self.c * m).real)

    def grad(self, z) -> np.ndarray:
        z = np.asarray(z, float)
        P = self._pows(z)
        cols = [P[v, self.E[:, v]] for v in range(6)]
        g = np.zeros(6)
        for v in range(6):
            ev = self.E[:, v]
            mask = ev > 0
            if not mask.any():
                continue
            m = self.c[mask] * ev[mask] * P[v, ev[mask] - 1]
            for w in range(6):
                if w != v:
                    m = m * cols[w][mask]
            g[v] = float(np.sum(m).real)
        return g

    def rhs(self, t, z):
        g = self.grad(z)
        return np.concatenate([g[3:], -g[:3]])


def z_of(s4) -> np.ndarray:
    z = np.zeros(6)
    z[1], z[4], z[2], z[5] = s4
    return z


def s4_of(z) -> np.ndarray:
    return np.array([z[1], z[4], z[2], z[5]])


def direction_quantity(ham: CMHamiltonian, z, sec: str) -> float:
    """The quantity whose positivity the documented rule (`_detect_crossing`) requires just after the crossing:
    the conjugate momentum for q-sections, the conjugate velocity dq/dt for p-sections."""
    if sec in ("q2", "q3"):
        return float(z[CONJ[sec]])
    return float(ham.rhs(0.0, z)[CONJ[sec]])


def reference_return(ham: CMHamiltonian, s4, sec: str, t_max: float, dt: float, rtol: float = 1e-12, atol: float = 1e-14):
    """First return of the reduced flow from s4 to the section {sec = 0} in the documented direction.

    Returns a list of candidate crossings [(t, s4, D, margin)] up to t_max in time order: sign changes of the
    section coordinate (either way), each with its direction quantity D at the crossing and a margin = how much
    D can change within one library step dt after the crossing (the library tests the sign of D at the END of
    the step in which the sign change happened, so |D| <= margin means either outcome is legitimate)."""
    idx = IDX[sec]

    def ev(t, z):
        return z[idx]

    ev.terminal = False
    ev.direction = 0
    z0 = z_of(s4)
    sol = solve_ivp(ham.rhs, (0.0, t_max), z0, method="DOP853", rtol=rtol, atol=atol, events=ev)
    out = []
    for t, z in zip(sol.t_events[0], sol.y_events[0]):
        if t <= 1e-9:
            continue
        D0 = direction_quantity(ham, z, sec)
        z1 = z + dt * ham.rhs(0.0, z)
        margin = 1.5 * abs(direction_quantity(ham, z1, sec) - D0) + 1e-9
        out.append((float(t), s4_of(z), D0, margin))
    return out
