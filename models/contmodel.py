"""Lock-step reference model of predictor-corrector continuation (DESIGN.md 3.2).

Written from the statement of property C13 and the option docstrings
(`ContinuationOptions`), not from `pc.py`.  It consumes the same sequence of
corrector outcomes as the real loop, one corrector call at a time.
"""
from __future__ import annotations

import numpy as np


class ModelMismatch(Exception):
    def __init__(self, inv: str, msg: str):
        super().__init__(f"{inv}: {msg}")
        self.inv = inv
        self.msg = msg


class ContinuationModel:
    def __init__(self, *, seed, idx, step0, target_min, target_max, max_members, max_retries,
                 step_min, step_max, stepper, shrink):
        self.idx = list(idx)
        self.family = [np.asarray(seed, float).copy()]
        self.step = np.asarray(step0, float).copy()
        self.tmin = np.asarray(target_min, float)
        self.tmax = np.asarray(target_max, float)
        self.M = int(max_members)
        self.R = int(max_retries)
        self.smin, self.smax = float(step_min), float(step_max)
        self.stepper = stepper
        self.shrink = shrink          # callable(step)->step | None ; may raise
        self.consec = 0               # failures at the current step
        self.accepted = 1             # the seed counts ("number of accepted solutions" == len(family))
        self.rejected = 0
        self.calls = 0
        self.stopped: str | None = "max_members" if self.M <= 1 else None
        self.tangent_defined = True
        # initial secant direction: unit vector of predictor(seed, step0) - seed
        d0 = np.zeros_like(self.family[0])
        for i, d in zip(self.idx, self.step):
            d0[i] += d
        n0 = float(np.linalg.norm(d0))
        self.tangent = None if n0 == 0.0 else d0 / n0
        self.probes: dict[str, int] = {}

    # ------------------------------------------------------------------
    def params(self, v):
        return np.asarray(v, float)[self.idx]

    def clamp(self, v):
        v = np.asarray(v, float)
        return np.sign(v) * np.clip(np.abs(v), self.smin, self.smax)

    def expected_prediction(self):
        last = self.family[-1]
        if self.stepper == "natural":
            p = last.copy()
            for i, d in zip(self.idx, self.step):
                p[i] += d
            return p
        if self.tangent is None:
            return None  # direction undefined by the property: don't care
        return last + self.tangent * float(np.linalg.norm(self.step))

    # ------------------------------------------------------------------
    def on_call(self, prediction):
        """The real loop is about to call the corrector with `prediction`."""
        self.calls += 1
        if self.stopped is not None:
            inv = {"max_members": "I1-member-limit", "target": "I3-target-stop", "retries": "I5-retry-limit"}[self.stopped]
            raise ModelMismatch(inv, f"corrector called after the run should have ended ({self.stopped}); "
                                     f"family size {len(self.family)}, call #{self.calls}")
        exp = self.expected_prediction()
        if exp is not None:
            p = np.asarray(prediction, float)
            scale = max(1.0, float(np.max(np.abs(exp))))
            if p.shape != exp.shape or not np.all(np.abs(p - exp) <= 1e-12 * scale):
                raise ModelMismatch("I2-prediction", f"call #{self.calls}: prediction {p.tolist()} != expected {exp.tolist()} "
                                                     f"(stepper {self.stepper}, step {self.step.tolist()})")

    def on_outcome(self, accepted: bool, corrected=None):
        if accepted:
            last = self.family[-1]
            c = np.asarray(corrected, float).copy()
            self.family.append(c)
            self.accepted += 1
            self.consec = 0
            d = c - last
            n = float(np.linalg.norm(d))
            self.tangent = None if n == 0.0 else d / n
            if n == 0.0:
                self._p("tangent_undefined")
            new = self.clamp(self.step)
            if not np.array_equal(new, self.step):
                self._p("clamp_on_accept")
            self.step = new
            prm = self.params(c)
            if np.any(prm < self.tmin) or np.any(prm > self.tmax):
                self.stopped = "target"
                self._p("target_left")
            elif self.accepted >= self.M:
                self.stopped = "max_members"
                self._p("max_members_hit")
        else:
            self.rejected += 1
            self.consec += 1
            raw = None
            if self.shrink is not None:
                try:
                    raw = np.asarray(self.shrink(self.step.copy()), float)
                except Exception:
                    raw = None
                    self._p("policy_raised")
            if raw is None:
                raw = self.step * 0.5
            new = self.clamp(raw)
            if np.any(np.abs(raw) < self.smin):
                self._p("clamp_min_bound")
            if np.any(np.abs(raw) > self.smax):
                self._p("clamp_max_bound")
            self.step = new
            if self.consec > self.R:
                self.stopped = "retries"
                self._p("retry_limit_hit")

    def _p(self, k):
        self.probes[k] = self.probes.get(k, 0) + 1
