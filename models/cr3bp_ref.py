"""Independent CR3BP reference: own right-hand side, own variational equations, scipy DOP853.

Used by the orbit legs of C05 and C13 to close a reported periodic orbit without any hiten integrator.
"""
from __future__ import annotations

import numpy as np
from scipy.integrate import solve_ivp


def rhs(mu: float):
    def f(t, y):
        x, yy, z, vx, vy, vz = y[:6]
        r1 = np.sqrt((x + mu) ** 2 + yy ** 2 + z ** 2)
        r2 = np.sqrt((x - 1 + mu) ** 2 + yy ** 2 + z ** 2)
        ax = 2 * vy + x - (1 - mu) * (x + mu) / r1 ** 3 - mu * (x - 1 + mu) / r2 ** 3
        ay = -2 * vx + yy - (1 - mu) * yy / r1 ** 3 - mu * yy / r2 ** 3
        az = -(1 - mu) * z / r1 ** 3 - mu * z / r2 ** 3
        return np.array([vx, vy, vz, ax, ay, az])
    return f


def jac(mu: float, y):
    x, yy, z = y[:3]
    d1 = np.array([x + mu, yy, z])
    d2 = np.array([x - 1 + mu, yy, z])
    r1, r2 = np.linalg.norm(d1), np.linalg.norm(d2)
    U = np.diag([1.0, 1.0, 0.0]) - (1 - mu) * (np.eye(3) / r1 ** 3 - 3 * np.outer(d1, d1) / r1 ** 5) \
        - mu * (np.eye(3) / r2 ** 3 - 3 * np.outer(d2, d2) / r2 ** 5)
    A = np.zeros((6, 6))
    A[:3, 3:] = np.eye(3)
    A[3:, :3] = U
    A[3, 4], A[4, 3] = 2.0, -2.0
    return A


def closure(mu: float, x0, T: float, with_monodromy: bool = True, rtol: float = 1e-12, atol: float = 1e-13):
    """Propagate x0 for T; returns (|x(T)-x0|_2, ||M||_2, x(T))."""
    x0 = np.asarray(x0, float)
    f = rhs(mu)
    if not with_monodromy:
        sol = solve_ivp(f, (0.0, T), x0, method="DOP853", rtol=rtol, atol=atol)
        xT = sol.y[:, -1]
        return float(np.linalg.norm(xT - x0)), None, xT

    def g(t, w):
        y, Phi = w[:6], w[6:].reshape(6, 6)
        return np.concatenate([f(t, y), (jac(mu, y) @ Phi).ravel()])

    w0 = np.concatenate([x0, np.eye(6).ravel()])
    sol = solve_ivp(g, (0.0, T), w0, method="DOP853", rtol=rtol, atol=atol)
    xT = sol.y[:6, -1]
    M = sol.y[6:, -1].reshape(6, 6)
    return float(np.linalg.norm(xT - x0)), float(np.linalg.norm(M, 2)), xT


def half_period_crossing(mu: float, x0, T: float, rtol: float = 1e-12, atol: float = 1e-13):
    """State at t = T/2 (the symmetric plane crossing of the planar-symmetric families)."""
    sol = solve_ivp(rhs(mu), (0.0, T / 2.0), np.asarray(x0, float), method="DOP853", rtol=rtol, atol=atol)
    return sol.y[:, -1]
